"""C11 — mesh/config files round-trip; malformed input is rejected without crashing.

Static rules (engines E7 path rules, E2 bounds, E12 writer/reader agreement) over the resolved
program of the XML scanner, the 22 MarkupParser classes of the mesh file reader and the atlas, the
mesh file writer and the chart `write` members, PropertyMap::read/write and Graph::serialize /
Graph(buffer).  No FEAT3 code is executed.

The analysis core is a small *must-facts* forward dataflow on clang's CFG: a fact is a branch atom
with a truth value (`_read < _count` is false, `it == attrs.end()` is false, ...) that holds on
every path reaching a statement.  Calls to functions that never return normally (computed from the
fact base: `Scanner::throw_syntax/grammar/content`) end their block like a `throw`.
"""
import itertools
import re

import featlib
import norm_c11
from featlib import Check, walk, render, is_call, rel, children

GEO = featlib.repo_path("kernel/geometry/")
READER_FILES = "|".join([
    featlib.repo_path("kernel/geometry/mesh_file_"),
    featlib.repo_path("kernel/geometry/atlas/"),
    featlib.repo_path("kernel/util/xml_scanner"),
])
DOC_EXC = ("FEAT::Xml::ContentError", "FEAT::Xml::GrammarError", "FEAT::Xml::SyntaxError")
PARSER_METHODS = ("attribs", "create", "close", "markup", "content")


def strip_targs(s):
    out, depth = [], 0
    for ch in s or "":
        if ch == "<":
            depth += 1
        elif ch == ">":
            depth -= 1
        elif depth == 0:
            out.append(ch)
    return "".join(out)


def short(cls):
    return strip_targs(cls).rsplit("::", 1)[-1]


# -------------------------------------------------------------------------------------------------
# expression normal forms
# -------------------------------------------------------------------------------------------------

def strip(n):
    """value-preserving wrappers (explicit casts between arithmetic types) removed"""
    while isinstance(n, dict):
        if n.get("k") == "Cast":
            n = n.get("e")
        elif n.get("k") == "Ref" and "_init" in n:
            n = n["_init"]
        else:
            break
    return n


REG = {}


def norm(n):
    """canonical text of an expression: casts, `this->`, `->`/`.` differences removed"""
    n = strip(n)
    if n is None:
        return ""
    s = _norm(n)
    REG.setdefault(s, n)
    return s


def _norm(n):
    k = n.get("k")
    if k in ("Int", "Float"):
        return str(n.get("v"))
    if k == "Bool":
        return "true" if n["v"] else "false"
    if k == "Str":
        return '"%s"' % n["v"]
    if k == "Char":
        return "'%s'" % chr(n["v"])
    if k == "This":
        return "this"
    if k == "Ref":
        return n.get("qn") if n.get("dk") in ("enum", "smember", "global") and n.get("qn") else n["n"]
    if k == "Member":
        b = n.get("b")
        if b is None or strip(b).get("k") == "This":
            return n["n"]
        return norm(b) + "." + n["n"]
    if k == "MCall":
        o = n.get("obj")
        args = ",".join(norm(a) for a in n.get("a", []))
        nm = n.get("n") or n.get("callee", "?").rsplit("::", 1)[-1]
        if o is None or strip(o).get("k") == "This":
            return "%s(%s)" % (nm, args)
        return "%s.%s(%s)" % (norm(o), nm, args)
    if k == "OpCall":
        a = n.get("a", [])
        op = n.get("op")
        if op in ("->", "*") and len(a) == 1:
            return norm(a[0]) if op == "->" else "*" + norm(a[0])
        if op == "[]" and len(a) == 2:
            return "%s[%s]" % (norm(a[0]), norm(a[1]))
        if op == "()":
            return "%s(%s)" % (norm(a[0]), ",".join(norm(x) for x in a[1:]))
        if len(a) == 2:
            return "(%s%s%s)" % (norm(a[0]), op, norm(a[1]))
        if len(a) == 1:
            return "(%s%s)" % (op, norm(a[0]))
    if k in ("Construct", "TempObj"):
        a = n.get("a", [])
        if len(a) == 1:
            return norm(a[0])
        return "%s(%s)" % (strip_targs(n.get("ccls") or ""), ",".join(norm(x) for x in a))
    if k == "Call":
        return "%s(%s)" % (n.get("callee"), ",".join(norm(x) for x in n.get("a", [])))
    if k == "Bin":
        return "(%s%s%s)" % (norm(n["lhs"]), n["op"], norm(n["rhs"]))
    if k == "Un":
        return "(%s%s)" % (n["op"], norm(n["e"]))
    if k == "Index":
        return "%s[%s]" % (norm(n["b"]), norm(n["idx"]))
    if k == "Cond":
        return "(%s?%s:%s)" % (norm(n["c"]), norm(n["then"]), norm(n["else"]))
    return render(n)


def root_var(n):
    """name of the variable/field an lvalue expression is rooted at (a[i].b -> a)"""
    n = strip(n)
    while n is not None:
        k = n.get("k")
        if k == "Ref":
            return n["n"]
        if k == "Member":
            b = n.get("b")
            if b is None or strip(b).get("k") == "This":
                return n["n"]
            n = strip(b)
        elif k == "Index":
            n = strip(n["b"])
        elif k == "OpCall" and n.get("a"):
            n = strip(n["a"][0])
        elif k == "MCall":
            n = strip(n.get("obj"))
        elif k == "Un":
            n = strip(n["e"])
        else:
            return None
    return None


def vars_of(n):
    out = set()
    for x in walk(n):
        if x.get("k") == "Ref" and "_init" in x:
            out |= vars_of(x["_init"])
        elif x.get("k") == "Ref" and x.get("dk") in ("local", "param"):
            out.add(x["n"])
        elif x.get("k") == "Member" and (x.get("b") is None or strip(x["b"]).get("k") == "This"):
            out.add("@" + x["n"])
    return out


# observers of a container's extent: their value is not changed by a write to an element of the container
SHAPE_OBSERVERS = ("size", "empty", "get_num_vertices", "get_num_entities", "get_index_bound", "get_num_indices",
                   "get_num_nodes_domain", "get_num_nodes_image", "get_num_values", "get_dimension")


def shape_vars(n):
    """variables that n mentions only as the direct receiver of size()/empty()"""
    shape, other = set(), set()

    def rec(x, under_shape):
        x = strip(x)
        if x is None:
            return
        k = x.get("k")
        if k == "MCall" and x.get("n") in SHAPE_OBSERVERS and not x.get("a"):
            o = strip(x.get("obj"))
            if o is not None and (o.get("k") == "Ref" or is_this_field(o)):
                nm = o["n"] if o.get("k") == "Ref" else "@" + o["n"]
                shape.add(nm)
                return
        if k == "Ref" and x.get("dk") in ("local", "param"):
            other.add(x["n"])
        elif k == "Member" and is_this_field(x):
            other.add("@" + x["n"])
        for c in children(x):
            rec(c, False)
    rec(n, False)
    return frozenset(shape - other)


def is_this_field(n):
    n = strip(n)
    return n is not None and n.get("k") == "Member" and (n.get("b") is None or strip(n["b"]).get("k") == "This")


CMP = ("<", ">", "<=", ">=", "==", "!=")


def cmp_parts(n):
    """(op, lhs, rhs) of a comparison expressed as built-in operator or overloaded operator call"""
    n = strip(n)
    if n.get("k") == "Bin" and n["op"] in CMP:
        return n["op"], n["lhs"], n["rhs"]
    if n.get("k") == "OpCall" and n.get("op") in CMP and len(n.get("a", [])) == 2:
        return n["op"], n["a"][0], n["a"][1]
    return None


def atom_facts(n, truth):
    """facts (kind, A, B, truth, vars) implied when expression n evaluates to `truth`"""
    n = strip(n)
    if n is None:
        return []
    k = n.get("k")
    if k == "Un" and n["op"] == "!":
        return atom_facts(n["e"], not truth)
    if k == "OpCall" and n.get("op") == "!" and len(n.get("a", [])) == 1:
        # unique_ptr / shared_ptr operator bool via operator! does not exist; `!ptr` is Un over a conversion
        return atom_facts(n["a"][0], not truth)
    if k == "Bin" and n["op"] == "&&":
        return atom_facts(n["lhs"], True) + atom_facts(n["rhs"], True) if truth else []
    if k == "Bin" and n["op"] == "||":
        return atom_facts(n["lhs"], False) + atom_facts(n["rhs"], False) if not truth else []
    if k == "MCall" and n.get("n") in ("operator bool",):
        return atom_facts(n.get("obj"), truth)
    c = cmp_parts(n)
    if c is not None and c[0] in ("==", "!="):
        for x, y in ((c[1], c[2]), (c[2], c[1])):
            sy = strip(y)
            if sy is not None and sy.get("k") == "Bool":
                return atom_facts(x, truth == ((c[0] == "==") == bool(sy["v"])))
    vs = frozenset(vars_of(n) | call_deps(n))
    sv = shape_vars(n)
    if k == "MCall" and n.get("n") == "empty" and not n.get("a"):
        # X.empty()  <=>  not (0 < X.size())
        return [("<", "0", "%s.size()" % norm(n.get("obj")), not truth, vs, sv)]
    if c is not None:
        op, l, r = c
        A, B = norm(l), norm(r)
        # size() compared with 0 / 1: one canonical form `0 < X.size()`
        for a_, b_, flip in ((A, B, False), (B, A, True)):
            if a_.endswith(".size()") and b_ in ("0", "1"):
                o = {"<": ">", ">": "<", "<=": ">=", ">=": "<="}.get(op, op) if flip else op
                nonempty = None
                if b_ == "0":
                    nonempty = {"==": False, "!=": True, ">": True, "<=": False}.get(o)
                else:
                    nonempty = {">=": True, "<": False}.get(o)
                if nonempty is not None:
                    return [("<", "0", a_, nonempty == truth, vs, sv)]
        if op == "<":
            return [("<", A, B, truth, vs, sv)]
        if op == ">=":
            return [("<", A, B, not truth, vs, sv)]
        if op == ">":
            return [("<", B, A, truth, vs, sv)]
        if op == "<=":
            return [("<", B, A, not truth, vs, sv)]
        a, b = sorted((A, B))
        return [("==", a, b, truth if op == "==" else not truth, vs, sv)]
    return [("b", norm(n), None, truth, vs, sv)]


MODSETS = {}     # full name of a member function -> set of kill tokens it may apply to fields of its object


def call_deps(n):
    """fields a branch atom depends on because it is the result of a member call on this object"""
    out = set()
    for x in walk(n):
        if x.get("k") == "MCall" and (x.get("obj") is None or strip(x["obj"]).get("k") == "This"):
            ms = MODSETS.get(x.get("cfull")) or MODSETS.get(x.get("callee"))
            if ms:
                out |= {t.rstrip("~") for t in ms if t != "@*"}
    return out


def eff_leaf(n):
    """the operand whose value decides an if/loop condition at the block that ends with it"""
    n = strip(n)
    while n is not None and n.get("k") == "Bin" and n["op"] in ("||", "&&"):
        n = strip(n["rhs"])
    return n


# -------------------------------------------------------------------------------------------------
# effective CFG with must-facts
# -------------------------------------------------------------------------------------------------

STD_MUTATORS = ("push_back", "pop_back", "push_front", "pop_front", "clear", "resize", "erase", "insert", "emplace",
                "emplace_back", "emplace_front", "assign", "swap", "reset", "release", "push", "pop", "append", "operator=",
                "operator+=", "getline", "get", "read", "ignore", "seekg", "str")
ACCESSOR_RE = re.compile(r"^(get_|find|at$|front$|back$|begin$|end$|data$|operator\[\]$|operator\(\)$|operator->$|operator\*$|c_str$|size$|empty$|parser$|name$|line$)")


def mutating_method(n):
    """may a call of this non-const member function change its receiver?  std containers/smart pointers: only the
    listed mutators; repository classes: everything except accessors that merely hand out references"""
    nm = n.get("n") or ""
    if (n.get("ccls") or "").startswith("std::"):
        return nm in STD_MUTATORS
    return not ACCESSOR_RE.match(nm)


PURE_KINDS = ("Int", "Float", "Bool", "Ref", "Member", "This", "Cast", "Bin", "Un", "MCall", "Str", "Char")


def resolve_const_locals(f):
    """a `const T x = <side-effect free expression>;` local stands for its initialiser in all normal forms
    (hoisting an accessor call into a const local must not change any verdict)"""
    if f.d.get("_c11_resolved"):
        return
    f.d["_c11_resolved"] = True
    consts = {}
    for n in f.nodes():
        if n.get("k") == "Var" and n.get("const") and not n.get("ref") and n.get("init") is not None:
            init = n["init"]
            ok = True
            for x in walk(init):
                if x.get("k") not in PURE_KINDS:
                    ok = False
                elif x.get("k") == "MCall" and not x.get("cconst"):
                    ok = False
                elif x.get("k") == "Un" and x.get("op") in ("++", "--"):
                    ok = False
            t = f.type(n.get("t")) or ""
            if ok and re.match(r"^const (unsigned |signed |long |short |std::size_t|std::ptrdiff_t|std::u?int\d+_t|FEAT::Index|int|bool|Index|size_t|u?int\d+_t)", t):
                consts[n["d"]] = init
    if not consts:
        return
    for n in f.nodes():
        if n.get("k") == "Ref" and n.get("dk") == "local" and n.get("d") in consts and "_init" not in n:
            n["_init"] = consts[n["d"]]


class World:
    """all fact bases of one run; knows which functions never return normally"""

    def __init__(self):
        self.fns = {}          # full name -> Function (first seen)
        self.by_qn = {}
        self.by_full = {}
        self.neverret = None
        self._ecfg = {}
        self._summ = {}

    def add(self, facts):
        for f in facts.functions:
            if f.tk == "pattern" or f.body is None:
                continue
            self.fns.setdefault(f.full, f)
            self.by_qn.setdefault(f.qn, []).append(f)
            self.by_full.setdefault(f.full, []).append(f)
            resolve_const_locals(f)
            norm_c11.resolve_aliases(f)        # reference / pointer aliases, single-assignment scalar locals (stability-checked)

    def resolve(self, call, caller=None):
        """definition of the callee of `call`; overloads sharing a printed name are told apart by the declaration id"""
        cands = self.by_full.get(call.get("cfull") or "", [])
        if len(cands) > 1 and caller is not None:
            same = [g for g in cands if g.facts is caller.facts and g.d.get("decl") == call.get("cdecl")]
            if same:
                return same[0]
            return None
        return cands[0] if cands else None

    def compute_neverret(self):
        """least fixpoint: a function never returns normally if no path entry->exit avoids throws,
        noreturn calls and calls to never-returning functions"""
        nr = set()
        changed = True
        cands = [f for f in self.fns.values() if f.cfg is not None and len(f.cfg.blocks) <= 12]
        while changed:
            changed = False
            for f in cands:
                if f.full in nr:
                    continue
                e = ECFG(f, nr)
                if not e.normal_exits():
                    nr.add(f.full)
                    changed = True
        self.neverret = nr
        return nr

    def compute_modsets(self, cls_re):
        """per member function of the classes matching cls_re: kill tokens for the fields of its own object
        (flow-insensitive, transitive over calls on this; unknown callee on this -> '@*')"""
        fns = [f for f in self.fns.values() if f.cfg is not None and
               ((f.cls in cls_re) if isinstance(cls_re, (set, frozenset)) else re.search(cls_re, f.cls or ""))]
        for f in fns:
            MODSETS.setdefault(f.full, set())
        changed = True
        rounds = 0
        while changed and rounds < 10:
            changed = False
            rounds += 1
            for f in fns:
                e = ECFG(f, self.neverret or set())
                acc = set()
                for n in f.nodes():
                    if n.get("k") in ("Assign", "Un", "Decl") or is_call(n):
                        acc |= {t for t in e._kills(n) if t.startswith("@")}
                if acc != MODSETS[f.full]:
                    MODSETS[f.full] = acc
                    changed = True
        self._ecfg = {}
        self._summ = {}

    def summary(self, call, caller):
        """facts about fields of the object that hold whenever the member function called on `this` returns normally
        (a private helper that rejects by throwing establishes the negation of its rejection condition)"""
        g = self.resolve(call, caller)
        if g is None or g.cfg is None or g.cls != caller.cls:
            return set()
        key = id(g)
        if key in self._summ:
            return self._summ[key]
        self._summ[key] = set()          # recursion guard
        e = self.ecfg(g)
        out = None
        for b in e.normal_exits():
            fs = e.facts_at_end(b, e.exit) or set()
            fs = {f for f in fs if f[4] and all(v.startswith("@") for v in f[4])}
            out = fs if out is None else (out & fs)
        self._summ[key] = out or set()
        return self._summ[key]

    def ecfg(self, fn):
        if id(fn) not in self._ecfg:
            self._ecfg[id(fn)] = ECFG(fn, self.neverret or set())
        return self._ecfg[id(fn)]

    # --- private helpers of the parser classes: call sites, facts at entry, parameters bound to their arguments ------------
    def callsites(self, fn):
        """[(caller, call node, on_this)] of every call of fn in the analysed program"""
        if getattr(self, "_sites", None) is None:
            self._sites = {}
            for g in self.all_functions():
                for n in g.nodes():
                    if n.get("k") in ("MCall", "Call") and n.get("cfull"):
                        self._sites.setdefault(n["cfull"], []).append((g, n))
        out = []
        for g, n in self._sites.get(fn.full, []):
            if g.facts is not fn.facts:
                continue          # the same instantiation seen from another translation unit is analysed there
            if n.get("cdecl") is not None and fn.d.get("decl") is not None and n.get("cdecl") != fn.d.get("decl"):
                continue
            on_this = n.get("k") == "MCall" and (n.get("obj") is None or strip(n["obj"]).get("k") == "This") and g.cls == fn.cls
            out.append((g, n, on_this))
        return out

    def all_functions(self):
        seen = set()
        for lst in self.by_full.values():
            for f in lst:
                if id(f) not in seen:
                    seen.add(id(f))
                    yield f

    def is_helper(self, fn):
        """non-virtual member function of a parser class that is only ever called on `this` by members of its class: it runs
        only as part of the callbacks that call it (whole-program view of the analysed translation units)"""
        key = id(fn)
        memo = self.__dict__.setdefault("_helper", {})
        if key not in memo:
            ok = bool(fn.cls) and fn.cls in PARSER_CLS and not fn.d.get("virtual") and not fn.d.get("ctor") and not fn.d.get("dtor") \
                and not fn.d.get("static") and fn.name not in PARSER_METHODS
            if ok:
                sites = self.callsites(fn)
                ok = bool(sites) and all(t for _, _, t in sites)
            memo[key] = ok
        return memo[key]

    def helpers_of(self, fn, depth=3):
        """helpers (see is_helper) called, transitively, by fn on `this`"""
        out, work, seen = [], [(fn, 0)], {id(fn)}
        while work:
            g, dep = work.pop()
            for n in g.nodes():
                if n.get("k") == "MCall" and (n.get("obj") is None or strip(n["obj"]).get("k") == "This"):
                    h = self.resolve(n, g)
                    if h is not None and id(h) not in seen and h.cfg is not None and self.is_helper(h) and dep < depth:
                        seen.add(id(h))
                        out.append(h)
                        work.append((h, dep + 1))
        return out

    def entry_facts(self, fn):
        """must-facts that hold whenever a helper is entered: the facts about fields of the object (and about local values handed
        over as arguments, renamed to the parameters) that hold at every call site"""
        memo = self.__dict__.setdefault("_entry", {})
        key = id(fn)
        if key in memo:
            return memo[key]
        memo[key] = set()          # recursion guard
        if not self.is_helper(fn):
            return memo[key]
        out = None
        for g, n, _ in self.callsites(fn):
            fs = self.ecfg(g).facts_at(n)
            if fs is None:
                continue           # unreachable call site
            ren = {}
            for prm, a in zip(fn.params, n.get("a", [])):
                sa = strip(a)
                if sa is not None and sa.get("k") == "Ref" and sa.get("dk") in ("local", "param") and prm.get("n"):
                    ren[sa["n"]] = prm["n"]
            here = set()
            for f in fs:
                vs = f[4]
                if not vs:
                    continue
                if all(v.startswith("@") for v in vs):
                    here.add(f)
                elif all(v.startswith("@") or v in ren for v in vs):
                    r = rename_fact(f, ren)
                    if r is not None:
                        here.add(r)
            out = here if out is None else (out & here)
        memo[key] = out or set()
        if memo[key]:
            # a solution of fn computed while this was in progress (recursion guard: empty entry facts) is stale
            ef = self._ecfg.get(id(fn))
            if ef is not None and ef._in is not None:
                ef._in = None
            self._summ.pop(id(fn), None)
            self.__dict__.setdefault("_psumm", {}).pop(id(fn), None)
        return memo[key]

    def param_summary(self, call, caller):
        """facts about the by-value / const-reference parameters of a private helper (and fields) that hold whenever it returns
        normally, rewritten to the caller's argument expressions: `_require_in_bounds(idx, ...)` returning means idx < _bound"""
        g = self.resolve(call, caller)
        if g is None or g.cfg is None or g.cls != caller.cls or g is caller or not g.params:
            return set()
        memo = self.__dict__.setdefault("_psumm", {})
        key = id(g)
        if key not in memo:
            memo[key] = set()          # recursion guard
            e = self.ecfg(g)
            pnames = {p_["n"] for p_ in g.params if p_.get("n")}
            modified = {root_var(x.get("lhs") or x.get("e")) for x in g.nodes()
                        if (x.get("k") == "Assign" or (x.get("k") == "Un" and x.get("op") in ("++", "--")))}
            out = None
            for b in e.normal_exits():
                fs = e.facts_at_end(b, e.exit) or set()
                fs = {f for f in fs if f[4] and any(v in pnames for v in f[4]) and all(v.startswith("@") or (v in pnames and v not in modified) for v in f[4])}
                out = fs if out is None else (out & fs)
            memo[key] = out or set()
        if not memo[key]:
            return set()
        bind = {}
        ms = MODSETS.get(g.full) or set()
        for prm, a in zip(g.params, call.get("a", [])):
            if not prm.get("n"):
                continue
            t = (g.type(prm.get("t")) or "").strip()
            if t.endswith("&") and not t.startswith("const "):
                continue          # may be written through
            va = vars_of(a)
            if any(x.get("k") not in PURE_KINDS + ("Index", "OpCall") for x in walk_init(strip(a))):
                continue
            if any((m.rstrip("~") in va) or (m == "@*" and any(v.startswith("@") for v in va)) for m in ms):
                continue          # the helper may change what the argument expression reads
            bind[prm["n"]] = a
        out = set()
        for f in memo[key]:
            if all(v.startswith("@") or v in bind for v in f[4]):
                r = subst_fact(f, bind)
                if r is not None:
                    out.add(r)
        return out

    def bind_helper_params(self):
        """a helper with exactly one call site whose argument is an expression over fields only: the parameter stands for that
        expression inside the helper (reference / pointer parameters are rewritten, scalar value parameters resolved like const locals)"""
        for fn in list(self.all_functions()):
            if fn.cfg is None or not fn.params or not self.is_helper(fn):
                continue
            sites = self.callsites(fn)
            if len(sites) != 1:
                continue
            g, n, _ = sites[0]
            bind = {}
            for prm, a in zip(fn.params, n.get("a", [])):
                vs = vars_of(a)
                if vs and all(v.startswith("@") for v in vs) and "d" in prm:
                    bind[prm["d"]] = a
            if bind:
                norm_c11.bind_params(fn, bind)


WORLD = [None]     # the World of the current run (callee summaries for the must-facts transfer)


def subst_fact(f, bind):
    """fact with the parameters `bind` (name -> argument expression node of the caller) replaced by those expressions"""
    import copy as _copy
    sides = []
    for sname in (f[1], f[2]):
        if sname is None or re.fullmatch(r"-?\d+", sname):
            sides.append(sname)
            continue
        node = REG.get(sname)
        if node is None:
            return None
        c = _copy.deepcopy(node)
        if c.get("k") == "Ref" and c.get("n") in bind and "_init" not in c:
            c = bind[c["n"]]
        else:
            for x in walk(c):
                for key_, ch in list(x.items()):
                    if isinstance(ch, dict) and ch.get("k") == "Ref" and ch.get("dk") in ("local", "param") and ch.get("n") in bind and "_init" not in ch:
                        x[key_] = bind[ch["n"]]
                    elif isinstance(ch, list):
                        for i_, y in enumerate(ch):
                            if isinstance(y, dict) and y.get("k") == "Ref" and y.get("dk") in ("local", "param") and y.get("n") in bind and "_init" not in y:
                                ch[i_] = bind[y["n"]]
        sides.append(norm(c))
    A, B = sides
    if f[0] == "==" and B is not None:
        A, B = sorted((A, B))
    vs, sv = set(), set(f[5])
    for v in f[4]:
        if v in bind:
            vs |= vars_of(bind[v])
            sv.discard(v)
        else:
            vs.add(v)
    return (f[0], A, B, f[3], frozenset(vs), frozenset(sv))


def rename_fact(f, ren):
    """fact with the local variables `ren` (caller name -> callee parameter name) renamed; None if a side is not a registered expression"""
    import copy as _copy
    sides = []
    for sname in (f[1], f[2]):
        if sname is None or re.fullmatch(r"-?\d+", sname):
            sides.append(sname)
            continue
        node = REG.get(sname)
        if node is None:
            return None
        c = _copy.deepcopy(node)
        for x in walk(c):
            if x.get("k") == "Ref" and x.get("dk") in ("local", "param") and x.get("n") in ren and "_init" not in x:
                x["n"] = ren[x["n"]]
                x["dk"] = "param"
                x.pop("d", None)
        sides.append(norm(c))
    A, B = sides
    if f[0] == "==" and B is not None:
        A, B = sorted((A, B))
    vs = frozenset(ren.get(v, v) for v in f[4])
    sv = frozenset(ren.get(v, v) for v in f[5])
    return (f[0], A, B, f[3], vs, sv)


def rejecting_return(fn, n):
    """`return false;` in a content() callback is a documented rejection: the scanner answers it with Xml::GrammarError"""
    if fn.name != "content" or n.get("k") != "Return" or not fn.d.get("virtual"):
        return False
    e = strip(n.get("e"))
    return e is not None and e.get("k") == "Bool" and not e["v"]


class ECFG:
    def __init__(self, fn, neverret):
        self.fn = fn
        cfg = fn.cfg
        self.cfg = cfg
        self.entry, self.exit = cfg.entry, cfg.exit
        self.el = {}
        self.succ = {}
        self.throws = set()
        for bid, b in cfg.blocks.items():
            el = list(b["el"])
            succ = list(b.get("succ", []))
            thr = bool(b.get("noreturn"))
            for pos, e in enumerate(el):
                n = fn.by_id(e)
                if n is None:
                    continue
                if n.get("k") == "Throw" or n.get("noreturn") or (is_call(n) and (n.get("cfull") in neverret or n.get("callee") in neverret)) \
                   or rejecting_return(fn, n):
                    el = el[:pos + 1]
                    thr = True
                    break
            self.el[bid] = el
            if thr:
                self.throws.add(bid)
                self.succ[bid] = []
            else:
                self.succ[bid] = succ
        self.pred = {b: [] for b in self.el}
        for b, ss in self.succ.items():
            for s in ss:
                if s is not None:
                    self.pred.setdefault(s, []).append(b)
        self._in = None
        self._parents = None
        self._where = None

    # --- structure ---------------------------------------------------------------------------
    def reachable(self, start=None, cut_edges=(), avoid=()):
        start = self.entry if start is None else start
        seen, st = set(), [start]
        while st:
            b = st.pop()
            if b in seen or b in avoid:
                continue
            seen.add(b)
            for s in self.succ.get(b, []):
                if s is not None and (b, s) not in cut_edges:
                    st.append(s)
        return seen

    def normal_exits(self):
        """blocks that are reachable and flow into EXIT without throwing"""
        reach = self.reachable()
        return [b for b in reach if b not in self.throws and self.exit in [s for s in self.succ.get(b, [])] and b != self.exit]

    def branch(self, b):
        """(leaf condition node, true successor, false successor) of a two-way block, else None"""
        blk = self.cfg.blocks[b]
        ss = self.succ.get(b, [])
        if b in self.throws or len(ss) != 2 or blk.get("cond") is None:
            return None
        if blk.get("term") not in ("IfStmt", "ForStmt", "WhileStmt", "DoStmt", "BinaryOperator", "ConditionalOperator", "CXXForRangeStmt"):
            return None
        c = self.fn.by_id(blk["cond"])
        if c is None:
            return None
        # if/loop terminators carry the whole condition (its last operand is what this block decides);
        # `||`/`&&` terminators carry their left operand
        leaf = eff_leaf(c)
        return leaf, ss[0], ss[1]

    def edge_facts(self, b, s):
        br = self.branch(b)
        if br is None:
            return []
        leaf, t, f = br
        if t == f:
            return []
        if s == t:
            return atom_facts(leaf, True) + self._loop_ne_facts(b, leaf)
        if s == f:
            return atom_facts(leaf, False)
        return []

    def _loop_ne_facts(self, b, leaf):
        """`for(i = 0; i != n; ++i)` with a non-negative n: inside the body i < n (i counts up from 0 in steps of one and
        the loop is left when it reaches n)"""
        blk = self.cfg.blocks[b]
        if blk.get("term") != "ForStmt" or blk.get("term_id") is None:
            return []
        loop = self.fn.by_id(blk["term_id"])
        c = cmp_parts(leaf) if leaf is not None and leaf.get("k") in ("Bin", "OpCall") else None
        if loop is None or loop.get("k") != "For" or c is None or c[0] != "!=":
            return []
        init, inc = loop.get("init"), strip(loop.get("inc"))
        if init is None or init.get("k") != "Decl" or len(init.get("vars", [])) != 1 or inc is None:
            return []
        v = init["vars"][0]
        i0 = strip(v.get("init"))
        if i0 is None or i0.get("k") != "Int" or i0["v"] != "0":
            return []
        if not ((inc.get("k") == "Un" and inc.get("op") == "++" and strip(inc["e"]).get("k") == "Ref" and strip(inc["e"])["n"] == v["n"])):
            return []
        for x, y in ((c[1], c[2]), (c[2], c[1])):
            sx = strip(x)
            if sx.get("k") == "Ref" and sx.get("n") == v["n"] and v["n"] not in vars_of(y):
                ty = self.fn.ntype(strip(y)) or ""
                sy = strip(y)
                nonneg = "unsigned" in ty or "size_t" in ty or "Index" in ty or (sy.get("k") == "Int" and int(sy["v"]) >= 0) \
                    or (sy.get("k") == "MCall" and sy.get("n") == "size")
                body_mod = any(r.get("k") in ("Assign", "Un") and root_var(r.get("lhs") or r.get("e")) == v["n"] and r is not inc
                               and not (r.get("k") == "Un" and r.get("op") not in ("++", "--")) for r in walk(loop.get("body")))
                if nonneg and not body_mod:
                    return [("<", norm(x), norm(y), True, frozenset(vars_of(x) | vars_of(y)), shape_vars(y))]
        return []

    # --- kill / gen ---------------------------------------------------------------------------
    def _kills(self, n):
        """variables (names; '@x' = field of this, '@*' = all fields) possibly modified by statement n"""
        out = set()
        k = n.get("k")

        def mark(e):
            e = strip(e)
            if e is None:
                return
            r = root_var(e)
            if r is None:
                return
            # the object itself, or something reached through an element accessor / subscript?
            direct = e.get("k") == "Ref" or is_this_field(e)
            suffix = "" if direct else "~"
            # is the root a field of this?
            for x in walk(e):
                if x.get("k") == "Member" and x.get("n") == r and is_this_field(x):
                    out.add("@" + r + suffix)
                    return
                if x.get("k") == "Ref" and x.get("n") == r:
                    out.add(r + suffix)
                    return
        if k == "Assign":
            mark(n["lhs"])
        elif k == "Un" and n.get("op") in ("++", "--"):
            mark(n["e"])
        elif k == "Decl":
            for v in n.get("vars", []):
                out.add(v["n"])
        elif is_call(n):
            pt = n.get("pt") or []
            args = n.get("a", [])
            if n.get("k") == "OpCall" and n.get("op") in ("=", "+=", "-=", "*=", "/=", "++", "--") and args:
                mark(args[0])
            off = 1 if (n.get("k") == "OpCall" and len(args) == len(pt) + 1) else 0
            for i, a in enumerate(args):
                j = i - off
                if 0 <= j < len(pt):
                    t = pt[j] if isinstance(pt[j], str) else self.fn.type(pt[j])
                    t = (t or "").strip()
                    if t.endswith("&") and not t.endswith("&&") and not t.startswith("const "):
                        mark(a)
            if k == "MCall" and not n.get("cconst") and not n.get("cstatic") and mutating_method(n):
                o = n.get("obj")
                if o is None or strip(o).get("k") == "This":
                    ms = MODSETS.get(n.get("cfull"))
                    if ms is None:
                        ms = MODSETS.get(n.get("callee"))
                    out |= ms if ms is not None else {"@*"}
                else:
                    mark(o)
        return out

    def _transfer_stmt(self, facts, n):
        ks = self._kills(n)
        if ks:
            allf = "@*" in ks
            hard = {k for k in ks if not k.endswith("~")}
            soft = {k[:-1] for k in ks if k.endswith("~")}
            facts = {f for f in facts if not (f[4] & hard) and not ((f[4] & soft) - f[5])
                     and not (allf and any(v.startswith("@") for v in f[4]))}
        if n.get("k") == "Call" and n.get("callee") == "FEAT::assertion" and n.get("a"):
            facts = set(facts) | set(atom_facts(n["a"][0], True))
        if n.get("k") == "MCall" and (n.get("obj") is None or strip(n["obj"]).get("k") == "This") and WORLD[0] is not None:
            facts = set(facts) | WORLD[0].summary(n, self.fn) | WORLD[0].param_summary(n, self.fn)
        if n.get("k") == "MCall" and n.get("callee") == "FEAT::Xml::MarkupParser::close":
            # the close() callback of the parser on top of a stack member: remembered until the stack itself changes
            o = n.get("obj")
            top = None
            srcs = [o]
            r_ = root_var(o)
            if r_ is not None and not is_this_field_root(o, r_):
                li = local_init(self.fn, r_)        # `auto top = stack.back().parser(); top->close(..)`
                if li is not None:
                    srcs.append(li)
            for src in srcs:
                for x in walk(src):
                    if x.get("k") == "MCall" and x.get("n") == "back" and is_this_field(x.get("obj")):
                        top = strip(x["obj"])["n"]
            if top is not None:
                facts = set(facts) | {("b", "closed(%s.back())" % top, None, True, frozenset(["@" + top]), frozenset(["@" + top]))}
        if n.get("k") == "MCall" and n.get("n") == "resize" and (n.get("ccls") or "").startswith("std::") and n.get("a"):
            o = strip(n.get("obj"))
            if o is not None and (o.get("k") == "Ref" or is_this_field(o)):
                v = o["n"] if o.get("k") == "Ref" else "@" + o["n"]
                sz = "%s.size()" % norm(o)
                REG.setdefault(sz, {"k": "Ref", "n": sz, "dk": "local"})
                a_, b_ = sorted((norm(n["a"][0]), sz))
                if v not in vars_of(n["a"][0]):
                    facts = set(facts) | {("==", a_, b_, True, frozenset(vars_of(n["a"][0]) | {v}), frozenset([v]) | shape_vars(n["a"][0]))}
        if n.get("k") == "MCall" and n.get("n") in ("push_back", "emplace_back", "push_front", "emplace_front", "push") \
           and (n.get("ccls") or "").startswith("std::"):
            o = strip(n.get("obj"))
            if o is not None and (o.get("k") == "Ref" or is_this_field(o)):
                v = o["n"] if o.get("k") == "Ref" else "@" + o["n"]
                facts = set(facts) | {("<", "0", "%s.size()" % norm(o), True, frozenset([v]), frozenset([v]))}
        return facts

    def _transfer_block(self, facts, b, upto=None):
        """facts after executing block b's statements (up to, not including, statement id `upto`)"""
        facts = set(facts)
        for e in self.el[b]:
            if upto is not None and e == upto:
                break
            n = self.fn.by_id(e)
            if n is not None:
                facts = self._transfer_stmt(facts, n)
        return facts

    def solve(self):
        if self._in is not None:
            return self._in
        IN = {self.entry: set(WORLD[0].entry_facts(self.fn)) if WORLD[0] is not None else set()}
        work = [self.entry]
        it = 0
        while work:
            it += 1
            if it > 20000:
                raise featlib.AnalysisBroken("must-facts dataflow does not converge in " + self.fn.full)
            b = work.pop()
            out = self._transfer_block(IN[b], b)
            for s in self.succ.get(b, []):
                if s is None:
                    continue
                new = out | set(self.edge_facts(b, s))
                if s not in IN:
                    IN[s] = new
                    work.append(s)
                else:
                    meet = IN[s] & new
                    if meet != IN[s]:
                        IN[s] = meet
                        work.append(s)
        self._in = IN
        return IN

    # --- queries ------------------------------------------------------------------------------
    def parents(self):
        if self._parents is None:
            self._parents = {}
            for root in [i.get("init") for i in (self.fn.d.get("inits") or [])] + [self.fn.body]:
                for x in walk(root):
                    for c in children(x):
                        self._parents[id(c)] = x
        return self._parents

    def parent(self, n):
        return self.parents().get(id(n))

    def where(self, node):
        """(block, stmt id or None) at which `node` is evaluated: its closest enclosing CFG element,
        or the end of the block whose branch condition contains it"""
        if self._where is None:
            self._where = {}
            self._conds = {}
            for b, el in self.el.items():
                for e in el:
                    self._where.setdefault(e, b)
                c = self.cfg.blocks[b].get("cond")
                if c is not None:
                    self._conds.setdefault(c, b)
        par = self.parents()
        x = node
        while x is not None:
            i = x.get("i")
            if i in self._where:
                return self._where[i], i
            if i in self._conds:
                return self._conds[i], None
            x = par.get(id(x))
        return None

    def facts_at(self, node):
        """must-facts that hold immediately before `node` is evaluated (None if unreachable/unknown)"""
        w = self.where(node)
        if w is None:
            return None
        b, sid = w
        IN = self.solve()
        if b not in IN:
            return None
        return self._transfer_block(IN[b], b, upto=sid)

    def facts_at_end(self, b, to=None):
        """facts after block b (on its edge to successor `to`, if given)"""
        IN = self.solve()
        if b not in IN:
            return None
        out = self._transfer_block(IN[b], b)
        if to is not None:
            out = out | set(self.edge_facts(b, to))
        return out

    def throw_class(self, b):
        """exception class constructed by the throw that ends block b ('' if abort/unknown)"""
        for e in reversed(self.el[b]):
            n = self.fn.by_id(e)
            if n is None:
                continue
            if n.get("k") == "Throw":
                x = strip(n.get("e"))
                if x is not None and x.get("k") in ("TempObj", "Construct"):
                    return x.get("ccls") or ""
                return "?"
            if rejecting_return(self.fn, n):
                return "FEAT::Xml::GrammarError"
            if is_call(n):
                return "call:" + (n.get("cfull") or n.get("callee") or "?")
        return ""

    def only_throws_from(self, s):
        """every path starting at block s ends in a throwing block (no normal exit reachable)"""
        reach = self.reachable(s)
        for b in reach:
            if b == self.exit:
                return False
        return True

    def throw_classes_from(self, s):
        return sorted({self.throw_class(b) for b in self.reachable(s) if b in self.throws})


def walk_init(n):
    """walk that also descends into the initialiser a resolved local stands for (`_init`)"""
    for x in walk(n):
        yield x
        if x.get("k") == "Ref" and "_init" in x:
            yield from walk_init(x["_init"])


def call_branch(e, call):
    """(block, successor taken when `call` returned true, successor when false) of the branch that tests the bool
    result of `call` (through !, == true/false, || / && operands), or None"""
    cs = norm(call)
    for b in e.el:
        br = e.branch(b)
        if br is None:
            continue
        leaf, t, fl = br
        if not any(x is call or (x.get("i") is not None and x.get("i") == call.get("i") and x.get("k") == call.get("k")) for x in walk_init(leaf)):
            continue
        for fa in atom_facts(leaf, True):
            if fa[0] == "b" and fa[1] == cs:
                return (b, t, fl) if fa[3] else (b, fl, t)
    # `const bool ok = call; if(!ok) ...`: the result is kept in a local that is never re-assigned and tested later
    p = e.parent(call)
    while p is not None and p.get("k") == "Cast":
        p = e.parent(p)
    if p is not None and p.get("k") == "Var" and (e.fn.type(p.get("t")) or "").replace("const ", "").strip() == "bool":
        v = p["n"]
        reassigned = any(((x.get("k") == "Assign") or (x.get("k") == "Un" and x.get("op") in ("++", "--")))
                         and root_var(x.get("lhs") or x.get("e")) == v for x in e.fn.nodes())
        if not reassigned:
            w = e.where(call)
            for b in e.el:
                br = e.branch(b)
                if br is None:
                    continue
                leaf, t, fl = br
                for fa in atom_facts(leaf, True):
                    if fa[0] == "b" and fa[1] == v and w is not None and (b == w[0] or w[0] in e.cfg.dom.get(b, ())):
                        return (b, t, fl) if fa[3] else (b, fl, t)
    return None


def undecided(ck, rule, key, why):
    """the instance exists but the code uses a construct the rule does not model: exit 2, never a violation"""
    ck.incomplete(rule, "%s: %s" % (key, why))
    ck.rule_counts[rule] = ck.rule_counts.get(rule, 0) + 1


MODELLED_CALLEES = re.compile(r"^(std::|FEAT::String::|FEAT::assertion$|FEAT::stringify|FEAT::Xml::\w+Error::|FEAT::Math::)")


def suspects(W, e, upto, names, anywhere=False, ignore=None):
    """calls executed before `upto` on some path (all calls of the function if anywhere) through which a check the rule
    misses could be performed in a way it does not model: member functions of the own class without analysed body, any
    non-library callee that receives `this` or one of the variables `names`, invocations of local lambdas.  Own member
    functions with a body are modelled (their normal-return facts about fields are propagated), unless they receive one
    of the (local) variables."""
    fn = e.fn
    names = set(names or ())
    blocks = None
    w = e.where(upto) if upto is not None and not anywhere else None
    if w is not None:
        blocks, st = set(), [w[0]]
        while st:
            b = st.pop()
            if b in blocks:
                continue
            blocks.add(b)
            st.extend(e.pred.get(b, []))
    out = []
    for b, el in e.el.items():
        if blocks is not None and b not in blocks:
            continue
        for sid in el:
            if w is not None and b == w[0] and sid == w[1]:
                break
            n = fn.by_id(sid)
            if n is None or n is upto:
                continue
            k = n.get("k")
            if k == "OpCall" and n.get("op") == "()" and n.get("a") and strip(n["a"][0]).get("k") == "Ref" and strip(n["a"][0]).get("dk") == "local" \
               and "lambda" in (fn.ntype(strip(n["a"][0])) or ""):
                out.append(render(n)[:60])
                continue
            if k not in ("Call", "MCall"):
                continue
            cal = n.get("callee") or ""
            if MODELLED_CALLEES.match(cal) or (n.get("ccls") or "").startswith("std::") or (ignore is not None and re.search(ignore, cal)):
                continue
            args = list(n.get("a", []))
            mentions = any((vars_of(a) & names) for a in args) or any(strip(a) is not None and strip(a).get("k") == "This" for a in args)
            own = k == "MCall" and (n.get("obj") is None or strip(n["obj"]).get("k") == "This")
            if own:
                g = W.resolve(n, fn)
                if g is None or mentions:
                    out.append(render(n)[:60])
                continue
            if k == "MCall" and ACCESSOR_RE.match(n.get("n") or "") and not mentions:
                continue
            recv_names = vars_of(n.get("obj")) & names if k == "MCall" else set()
            if mentions or (recv_names and not ACCESSOR_RE.match(n.get("n") or "")):
                if upto is not None and any(x is upto for x in walk(n)):
                    continue
                out.append(render(n)[:60])
    return sorted(set(out))


def find_fact(facts, kind, A=None, B=None, truth=None):
    out = []
    for f in facts or ():
        if f[0] != kind:
            continue
        if A is not None and f[1] != A:
            continue
        if B is not None and f[2] != B:
            continue
        if truth is not None and f[3] != truth:
            continue
        out.append(f)
    return out


# -------------------------------------------------------------------------------------------------
# parser classes
# -------------------------------------------------------------------------------------------------

class ParserClass:
    def __init__(self, cls):
        self.cls = cls
        self.m = {}

    @property
    def short(self):
        return short(self.cls)


def parser_classes(facts):
    """classes that implement the five Xml::MarkupParser callbacks, per instantiation"""
    by = {}
    for f in facts.functions:
        if f.tk == "pattern" or f.name not in PARSER_METHODS or not f.cls:
            continue
        by.setdefault(f.cls, {})[f.name] = f
    out = []
    for cls, m in sorted(by.items()):
        if all(k in m for k in PARSER_METHODS) and all(m[k].d.get("virtual") for k in PARSER_METHODS):
            pc = ParserClass(cls)
            pc.m = m
            out.append(pc)
    return out


def this_counter(fn):
    """fields of this incremented in fn"""
    out = []
    for n in fn.nodes():
        if n.get("k") == "Un" and n.get("op") == "++" and is_this_field(n["e"]):
            out.append((strip(n["e"])["n"], n))
        elif n.get("k") == "Assign" and n.get("op") == "+=" and is_this_field(n["lhs"]) and norm(n["rhs"]) == "1":
            out.append((strip(n["lhs"])["n"], n))
        elif n.get("k") == "Assign" and n.get("op") == "=" and is_this_field(n["lhs"]):
            r = strip(n["rhs"])
            fld = strip(n["lhs"])["n"]
            if r is not None and r.get("k") == "Bin" and r["op"] == "+" and sorted((norm(r["lhs"]), norm(r["rhs"]))) == sorted((fld, "1")):
                out.append((fld, n))           # x = x + 1
    return out


def scope_counter(W, fn):
    """counter increments in fn and in the helpers it calls: [(field, node, function)]"""
    out = [(c, n, fn) for c, n in this_counter(fn)]
    for h in W.helpers_of(fn):
        out += [(c, n, h) for c, n in this_counter(h)]
    return out


def documented(classes):
    return all(c in DOC_EXC for c in classes) and len(classes) > 0


def guard_origin(e, kind, A, B, truth):
    """branch blocks that establish fact (kind,A,B,truth) on one edge; returns list of
    (block, other successor)"""
    out = []
    for b in e.el:
        br = e.branch(b)
        if br is None:
            continue
        leaf, t, f = br
        for s, o, tv in ((t, f, True), (f, t, False)):
            for fa in atom_facts(leaf, tv):
                if fa[0] == kind and fa[1] == A and fa[2] == B and fa[3] == truth:
                    out.append((b, o))
    return out


class Merged:
    """several fact bases seen as one (functions de-duplicated by their full instantiation name)"""

    def __init__(self, bases):
        self.bases = bases
        seen = {}
        for fb in bases:
            for f in fb.functions:
                if f.tk == "pattern":
                    continue
                seen.setdefault((f.full, f.file, f.line), f)
        self.functions = list(seen.values())

    def find(self, qn_re=None, name=None, cls_re=None):
        out = []
        for f in self.functions:
            if qn_re is not None and not re.search(qn_re, f.qn):
                continue
            if name is not None and f.name != name:
                continue
            if cls_re is not None and not re.search(cls_re, f.cls or ""):
                continue
            out.append(f)
        return out


THOROUGH_TUS = ["tools/mesh_tools/mesh_extruder.cpp", "tools/mesh_tools/mesh_indexer.cpp", "tools/mesh_tools/tri_to_mesh.cpp",
                "tools/mesh_tools/mesh_to_vtk.cpp"]


def declare_rules(ck):
    ck.rule("E7.counter-guard",
            "in every counting parser's content() the increment of the running counter and every subscript that uses it are "
            "dominated by `counter >= limit -> throw Xml::*Error` (input class: a block with more lines than declared "
            "would be stored past the end of the vertex/index/attribute array)", 9)
    ck.rule("E7.truncation",
            "every counting parser's close() reaches a normal exit only with `counter >= limit` for the same limit "
            "that content() guards with, the failing edge throwing Xml::*Error (input class: a block with fewer "
            "lines than declared must not yield a partly uninitialised object)", 9)
    ck.rule("E2.counter-extent",
            "the limit the running counter is rejected against is the extent of the container it indexes: VertexSet/IndexSet "
            "operator[] <-> get_num_vertices/get_num_entities of the same object, raw index pointer <-> get_num_entities of the set "
            "it was taken from (tuple stride = IndexSet<n>), AttributeSet(i,j) <-> its constructor's num_values (input class: "
            "any block of the declared length when limit and extent differ)", 6)
    ck.rule("E7.parse-result-used",
            "the bool result of every resolved String::parse call in the reader is tested and no normal exit is reachable from "
            "its failure edge (or it is returned to the caller) (input class: a non-numeric token must be rejected, "
            "not silently replaced by the default value)", 50)
    ck.rule("E7.token-guard",
            "every token of a split line/attribute (at/[]/front/back on the deque returned by String::split_by_*) is accessed "
            "only where the dominating size checks (rejecting with Xml::*Error) imply index < size; bounded model 0..5 "
            "(input class: a line with too few tokens)", 17)
    ck.rule("E2.index-range",
            "every parsed entity index that is kept in an IndexSet or used as DynamicGraph node is compared with the index "
            "bound / node count of that very set on every path before the callback returns or the loop continues "
            "(input class: a vertex index >= number of vertices)", 4)
    ck.rule("E2.attr-index-range",
            "a std container subscripted with a value parsed from an attribute (`dim`) is only reached with 0 <= index < size "
            "under the dominating rejections; bounded model 0..5 (input class: dim = one past the largest admissible dimension)", 2)
    ck.rule("E7.mandatory-attr",
            "every attrs.find(K) in create() is either dereferenced under `!= attrs.end()` or K is registered mandatory in the "
            "same parser's attribs() (which returns true so that the scanner validates), and K is registered at all "
            "(input class: a markup lacking the attribute)", 36)
    ck.rule("E7.children-required",
            "for every child block the format description (doxy_in/mesh_format.dox) calls mandatory, the parent parser's markup() "
            "records that the block was seen (sets a field or hands one to the child parser by reference) and close() has a branch "
            "on that field whose failing edge throws Xml::*Error (input class: a file truncated between two blocks)", 5)
    ck.rule("E2.loop-range",
            "in the parser callbacks a counted loop that subscripts a std container field V with its loop variable stays inside V, and if "
            "it tests V[i] in a condition (completeness loops `for all i: flag.at(i) == 0 -> throw`) it visits every entry of V: the "
            "bound is V.size() itself or provably equal to it (container sizes from the class's own constant resize() calls, "
            "template constants folded, or from the function's facts); bounded model 0..5 (input class: a mesh part whose "
            "top-dimensional <Mapping> block is missing)", 7)
    ck.rule("E7.scanner-stack",
            "every back()/pop_back() on the scanner's markup stack is dominated by a non-empty check, in the function itself or "
            "(if the function does not shrink the stack before) at every call site inside the class (input class: surplus "
            "terminators, content after the root terminator)", 11)
    ck.rule("E7.scanner-close-pairing",
            "every pop of the scanner's parser stack is reached only on paths that called the popped parser's close() callback after "
            "the last change of the stack (create/close pairing; input class: a self-closed markup `<Patch rank=\"0\" size=\"2\" />` "
            "whose declared count is never checked)", 2)
    ck.rule("E7.scanner-line-count",
            "every std::getline of the scanner is followed on all paths by an increment of the line counter (input class: files with "
            "empty lines: the documented exception must carry the right line)", 1)
    ck.rule("E7.scanner-nonempty-line",
            "read_next_line() returns true only for a trimmed non-empty line and process_content() hands exactly that line to content() "
            "(contract used by E7.token-guard: the first token of a content line exists)", 3)
    ck.rule("E12.vocabulary",
            "every markup MeshFileWriter::write (callees and all chart write() overrides inlined) emits is accepted by the reader "
            "class that parses its parent (markup() name comparisons), its attributes are registered in that reader's attribs(), "
            "the reader's mandatory attributes are emitted unconditionally and literal attribute values belong to the values the "
            "reader compares with; composite values (mesh type string) agree field by field with the reader's split: count, literals, "
            "and for numeric fields the constant the reader requires of that token / the getter that publishes it, per instantiation "
            "incl. shape dimension != world dimension (input class: any object of that kind; write -> read throws)", 33)
    ck.rule("E12.line-per-markup",
            "every opening/closing markup the writer emits is directly followed by a line break, also at the end of a write function "
            "(the scanner accepts one markup per line; input class: any atlas containing that chart)", 45)
    ck.rule("E12.dim-binding",
            "for every shape and every d the index set (get_index_set<c,f>) resp. target set (get_target_set<d>) written under "
            "<Topology dim=d>/<Mapping dim=d> is the one the reader fills for that attribute value (input class: any mesh of that "
            "shape; a swapped pair stores e.g. vertices-at-edge into vertices-at-quad)", 30)
    ck.rule("E12.dimension-recursion",
            "a writer helper that emits the block of dimension d and recurses into the same helper for another dimension (TopoWriteHelper / "
            "MappWriteHelper<Shape, d> -> <Shape, d-1>) reaches the recursive call on every path to a normal exit: an early return "
            "(e.g. 'nothing to write for dimension d') may skip only the own block, never the blocks of the other dimensions (input class: a "
            "mesh part without entities of the top dimension but with lower-dimensional ones - the reader then misses <Topology dim=1> "
            "under topology=\"full\" and rejects the writer's own output)", 24)
    ck.rule("E12.carrier-transfer",
            "the objects that carry parsed data from the reader to the writer (Partition, PartitionSet, MeshPart, AttributeSet, index / target / "
            "vertex sets ...: classes of kernel/geometry whose getters MeshFileWriter calls) keep it when they are moved or copied: in every "
            "hand-written copy / move constructor and assignment operator each data member behind a getter the writer reads is defined from "
            "the SAME member of the source - directly, or through a constructor it delegates to (defaulted arguments included: a delegating "
            "move constructor must pass every field) (input class: a parsed partition with level != 0 moved into the PartitionSet)", 14)
    ck.rule("E2.parsed-conversion",
            "an integer obtained with String::parse that is converted to the other signedness keeps its value: a parsed UNSIGNED value "
            "narrowed to a signed type (`int(_my_dim)`) is dominated by a rejection that bounds it from above, a parsed SIGNED value "
            "converted to an unsigned one (`Index(_num_elems)`) by a rejection of negative values (documented Xml::*Error); for a field the "
            "bound must hold whenever the callback that parses it returns normally (input class: dim=\"4294967295\" -> int(dim) == -1 -> "
            "XASSERT abort in AttributeSet; size=\"1 -1\" -> a partition with 2^64-1 elements is accepted)", 6)
    ck.rule("E7.parse-unsigned-sign",
            "String::parse<T> for an unsigned T rejects a leading minus sign: the stream extraction it is built on accepts \"-1\" and "
            "wraps it to 2^N-1 without setting failbit, so every unsigned attribute / token of a mesh file silently accepts negated "
            "numbers (input class: <Attribute dim=\"-1\"> aborts in an XASSERT, size=\"-4 ..\" ends in std::length_error)", 1)
    ck.rule("E7.attr-value-used",
            "a field of a parser class that create() fills with the text of an attribute is read by some member function of the class "
            "(used, validated or handed on): a value that is stored and never looked at is neither checked nor applied (input class: a root "
            "markup whose mesh=\"...\" declaration contradicts the <Mesh type=...> it contains; an <Extrude origin=...> whose parsed origin no branch hands to the chart)", 27)
    ck.rule("E7.sibling-forwarding",
            "sibling branches of one parser's markup() that build the same kind of object (`new Extrude<Mesh, Circle>` / `new Extrude<Mesh, "
            "Bezier>`: one class template) hand over the same parsed attribute fields: a field that create() parsed and that one branch reads "
            "(ext->set_origin(_ori_x, _ori_y)) is read by every sibling branch (input class: an <Extrude origin=...> chart around the sub-chart "
            "kind whose branch forgets the field - the parsed chart is a different geometric object)", 8)
    ck.rule("E11.attr-formula-roundtrip",
            "numeric chart attributes survive write -> parse: the value expressions Chart::write emits for an attribute (sympy, over the "
            "chart's fields), bound to the tokens the chart's parser parses and pushed through the constructor the parser calls, give back "
            "every field they were computed from (e.g. Circle: d_L = -a, d_R = d_L + 2*pi/b against a = -d_L, b = 2*pi/(d_R - d_L)); a "
            "violation comes with a numeric counterexample (input class: a Circle with a reversed parameter domain)", 9)
    ck.rule("E2.stored-index-bounded",
            "sibling agreement of the content() callbacks that store a parsed unsigned integer into an index container (a cell of an index set / "
            "target set / raw index array, or a local handed to an insert of a member container): on every path from the successful parse to the "
            "acceptance of the line the value has been compared with an upper bound in the strict form (value < B holds; `value > B` rejected "
            "alone leaves value == B).  A comparison that some paths skip (`if(!sizes.empty() && v >= sizes.at(d))`) is accepted only with a "
            "deferred route: the container tested by the skip condition is followed to the callback of the owning parser that fills it, and "
            "every normal path of that callback either fills it or registers a task with a helper object of the reader whose task list is "
            "consumed by a method that can reject; a route the rule cannot follow answers incomplete (input class: <Mapping dim=\"0\"> "
            "with index 3 of 3 vertices - deduct_topology writes out of bounds)", 4)
    ck.rule("E7.deduct-precondition",
            "MeshPart::deduct_topology(parent topology) is called by the reader only after a check that relates the part's target sets to that "
            "topology: the call is dominated by the true-branch of a bool call (or by a call of a helper that can throw) whose arguments "
            "contain both the mesh part (or its target set holder) and the topology handed to deduct_topology - fill_ish looks every vertex of "
            "a mapped edge/face/cell up in the inverse vertex map, which is defined only for vertices in the vertex target set (input class: "
            "a mesh part with topology=\"parent\" that lists an edge but not both of its vertices)", 1)
    ck.rule("E12.dimension-coverage",
            "a recursive per-dimension helper family of the reader (Intern::TopoParseHelper / MappParseHelper / MappCheckHelper<Shape, dim>: a "
            "member function that calls the same function of the same template for another dimension) does its work for every dimension the "
            "holder it is given has: the set of dimensions d for which some instantiated member of the family touches get_target_set<d> is "
            "{0..shape_dim}, for get_index_set<d,0> it is {1..shape_dim} (vertices have no index set) - wherever the recursion ends, the "
            "terminal specialisation lies below the lowest dimension or does that dimension's work itself (input class: a mesh part in front "
            "of the <Mesh> whose vertex mapping holds an out-of-range index: the deferred check never looks at dimension 0)", 18)
    ck.rule("E1.deferred-roles",
            "a value a parser callback hands to a task helper of the reader (MeshNodeLinker::meshpart_link_to_chart(part, chart)) arrives in the "
            "role it was read in: the argument that carries attribute K (name= of <MeshPart> -> the mesh part, chart= -> the chart) is followed "
            "through the helper's parameter, the container component the helper stores it in and the method that takes the tasks out again, to "
            "the typed look-up that consumes it (MeshAtlas::find_mesh_chart -> a chart, MeshNode::find_mesh_part -> a mesh part); the kind of "
            "object looked up is the kind the attribute names and not the kind another argument of the same call names (input class: a mesh "
            "part linked to a chart with a different name - the crossed pair is rejected or links the wrong objects)", 3)
    ck.rule("E7.callee-precondition",
            "a value parsed from the file reaches a constructor only in the range the constructor asserts: every XASSERT of the callee that "
            "compares one of its parameters with a literal is implied by the rejections that dominate the call in the parser callback "
            "(input class: the boundary value the parser lets through and the callee aborts on, e.g. radius=\"0\")", 2)
    ck.rule("E11.angles-roundtrip",
            "the yaw/pitch/roll values Extrude::write reconstructs from the rotation matrix reproduce that matrix when read back: with "
            "R(yaw,pitch,roll) taken from Tiny::Matrix::set_rotation_3d, the token->parameter binding and the revolution scaling from "
            "ExtrudeChartParser, and the writer's formulas per branch (generic pitch, pitch = +-1/4 revolution; the branch is selected by "
            "evaluating the writer's own conditions on sample matrices), R(written angles) - R(original) simplifies to 0 with sympy; a "
            "violation needs a numeric counterexample (input class: an Extrude chart with that pitch)", 3)
    ck.rule("E12.buffer-layout",
            "Graph::serialize and Graph(buffer) agree in cursor form: every header slot is read back into the field it was written "
            "from (sizes re-derived symbolically), payload segments have the same order, start and length, the payload fills the "
            "allocated buffer (symbolic, general case); on the concrete degenerate states (all containers empty; first container of size "
            "one) writer and reader are evaluated with all their emptiness case splits and inlined accessor bodies: header values "
            "representable, reader inside buffer/containers, every size observer (e.g. get_num_nodes_domain) equal for original and "
            "rebuilt object; the states cover every empty/non-empty combination of the payload sections, so the conditions guarding a section "
            "on both sides must agree (input class: any graph; the default-constructed graph; a graph with nodes but no adjacencies)", 13)
    ck.rule("E7.ini-state-update",
            "in PropertyMap::read every non-throwing path through a branch of the line-classification chain assigns the local state "
            "variable (kind of the last line; identified as the enum-valued local assigned in several branches and tested in conditions) "
            "before the next line is read or the function returns (input class: `[A]` / `key =` / `{` - an entry with empty value "
            "between a section marker and its brace)", 4)
    ck.rule("E12.ini-delimiters",
            "every line form PropertyMap::write emits (key = value, [section], {, } # comment) is, after read()'s own comment "
            "stripping and trimming, classified by a distinct non-rejecting branch of read()'s if-chain (predicates and the comment "
            "character are read from the source), key-value lines by the branch that adds an entry, section lines by the one that "
            "adds a section (input class: any property map with a sub-section)", 4)


def guard_documented(W, e, kind, A, B, truth, depth=0):
    """is the fact established by a branch whose other edge ends in a documented Xml::*Error, in this function or in a member
    helper whose normal return establishes it?  None if no establishing branch is found at all (e.g. an assertion)"""
    orig = guard_origin(e, kind, A, B, truth)
    if orig:
        return any(e.only_throws_from(o) and documented(e.throw_classes_from(o)) for _, o in orig)
    if depth > 3:
        return None
    res = None
    for n in e.fn.nodes():
        if n.get("k") == "MCall" and (n.get("obj") is None or strip(n["obj"]).get("k") == "This"):
            if any((f[0], f[1], f[2], f[3]) == (kind, A, B, truth) for f in W.summary(n, e.fn)):
                g = W.resolve(n, e.fn)
                r = guard_documented(W, W.ecfg(g), kind, A, B, truth, depth + 1) if g is not None else None
                if r:
                    return True
                if r is False:
                    res = False
    return res


def guard_documented_up(W, fn, kind, A, B, truth, depth=0):
    """guard_documented for a fact that may have been established by the callers of a helper (entry facts)"""
    r = guard_documented(W, W.ecfg(fn), kind, A, B, truth)
    if r is not None or depth > 3 or not W.is_helper(fn):
        return r
    res = None
    for g, n, _ in W.callsites(fn):
        r2 = guard_documented_up(W, g, kind, A, B, truth, depth + 1)
        if not r2:
            return r2 if res is None or r2 is False else res
        res = True
    return res


def run(tier):
    ck = Check("C11", tier)
    declare_rules(ck)
    REG.clear()
    MODSETS.clear()
    WORLD[0] = None
    W = World()

    bases = []
    drv = featlib.extract("tu/c11_meshio.cpp", files=READER_FILES + "|/verif/tu/c11_")
    ck.tu(drv)
    bad = drv.errors_in_repo() + drv.errors_outside_repo()
    if bad:
        ck.incomplete("E7.counter-guard", "driver TU tu/c11_meshio.cpp does not compile: %s:%d %s" % (bad[0]["file"], bad[0]["line"], bad[0]["msg"]))
    bases.append(drv)
    if tier == "thorough":
        for tu in THOROUGH_TUS:
            path = featlib.repo_path(tu)
            try:
                fb = featlib.extract(path, files=READER_FILES)
            except (featlib.AnalysisBroken, OSError) as ex:
                ck.note("thorough: %s not analysed (%s)" % (tu, str(ex)[:120]))
                continue
            ck.tu(fb)
            bases.append(fb)
    facts = Merged(bases)
    sfacts = featlib.extract(featlib.repo_path("kernel/util/xml_scanner.cpp"), files=featlib.repo_path("kernel/util/xml_scanner"))
    gfacts = featlib.extract(featlib.repo_path("kernel/adjacency/graph.cpp"), files=featlib.repo_path("kernel/adjacency/graph"))
    pfacts = featlib.extract(featlib.repo_path("kernel/util/property_map.cpp"), files=featlib.repo_path("kernel/util/property_map"))
    for fb in (sfacts, gfacts, pfacts):
        ck.tu(fb)
    for fb in bases + [sfacts, gfacts, pfacts]:
        W.add(fb)
    pcs = parser_classes(facts)
    PARSER_CLS.clear()
    PARSER_CLS.update(pc.cls for pc in pcs)
    W.bind_helper_params()
    W.compute_neverret()
    WORLD[0] = W
    W.compute_modsets(frozenset({"FEAT::Xml::Scanner", "FEAT::Geometry::MeshFileReader"} | {pc.cls for pc in pcs}))

    rule_scanner(ck, W, sfacts)
    limits = rule_counter(ck, W, pcs)
    rule_counter_extent(ck, W, pcs, facts, limits)
    rule_parse_used(ck, W, facts)
    rule_tokens(ck, W, facts)
    rule_index_range(ck, W, facts)
    rule_attr_index(ck, W, facts)
    rule_mandatory(ck, W, pcs, facts)
    rule_children(ck, W, pcs)
    rule_loop_range(ck, W, pcs, facts)
    rule_vocabulary(ck, W, facts, pcs)
    rule_dim_binding(ck, W, facts)
    rule_dimension_recursion(ck, W, facts)
    rule_parsed_conversion(ck, W, facts)
    rule_sibling_forwarding(ck, W, pcs, facts)
    rule_attr_formula_roundtrip(ck, W, pcs, facts)
    rule_callee_precondition(ck, W, facts)
    rule_deferred_roles(ck, W, pcs, facts)
    rule_stored_index_bounded(ck, W, pcs, facts)
    rule_deduct_precondition(ck, W, facts)
    rule_dimension_coverage(ck, W, facts)
    rule_parse_sign(ck, W, facts)
    rule_attr_value_used(ck, W, pcs, facts)
    rule_carrier_transfer(ck, W, facts)
    rule_buffer_layout(ck, W, gfacts)
    rule_ini(ck, W, pfacts)
    rule_angles(ck, W, facts)

    ck.assume("integer arithmetic is idealised (no wrap-around) except where a rule says otherwise; E7.token-guard / E2.attr-index-range / "
              "E12.buffer-layout(header-domain) decide index ranges on the bounded model 0..%d per free symbol (all guards are linear comparisons)" % MAXV)
    ck.assume("facts about a container's size()/empty() survive calls that only reach its elements (back().parser()->create(...)); "
              "re-entrant modification of the scanner's stack from inside a parser callback is not modelled")
    ck.assume("Xml::Scanner hands only trimmed non-empty lines to content() (decided by E7.scanner-nonempty-line) and String::split_by_whitespaces "
              "of such a line yields at least one token")
    ck.assume("the documented exceptions are Xml::SyntaxError / GrammarError / ContentError (xml_scanner.hpp); std::out_of_range from deque::at is "
              "not a documented rejection")
    ck.assume("mandatory child blocks are transcribed from doxy_in/mesh_format.dox (anchor sentences are re-checked on every run)")
    ck.note("not decided: byte-for-byte idempotence of write->read->write, printed precision of real numbers, termination, target-set (Mapping) indices against the parent mesh "
            "(unknown at parse time), negative partition sizes, property-map values containing '#', '&' or '=', permutation serialisation "
            "(no such code in the tree), std::string internals")
    return ck.finish(
        "Static analysis of the resolved program (clang AST + CFG of all instantiations the driver tu/c11_meshio.cpp produces for the six conformal "
        "shapes, 2D/3D charts, mesh parts, partitions; xml_scanner.cpp, graph.cpp, property_map.cpp). A must-facts dataflow over the CFG (branch "
        "atoms with truth values; calls to never-returning members like Scanner::throw_grammar end a path) decides guard-before-store, truncation, "
        "parse-result, mandatory-attribute, index-range and scanner-stack rules; the writer is abstracted to the stream of literals it emits "
        "(callees and chart overrides inlined), parsed into a markup tree and matched against the tree of reader classes (markup()/attribs()/create()); "
        "Graph::serialize/Graph(buffer) are compared in cursor form with sympy; PropertyMap line forms are classified by read()'s own predicates.",
        trusted_base=["clang 14 front end (AST, template instantiation, CFG)", "featx plugin fact extraction",
                      "rule tables in checks/c11.py: extent accessors (VertexSet/IndexSet/TargetSet/AttributeSet), std container mutator list, "
                      "mandatory child blocks transcribed from doxy_in/mesh_format.dox"])


# -------------------------------------------------------------------------------------------------
# E7.counter-guard / E7.truncation
# -------------------------------------------------------------------------------------------------

def rule_counter(ck, W, pcs):
    limits_by_cls = {}
    groups = {}
    for pc in pcs:
        groups.setdefault(pc.short, []).append(pc)
    for name, insts in sorted(groups.items()):
        results_g, results_t = [], []
        for pc in insts:
            content, close = pc.m["content"], pc.m["close"]
            ctrs3 = scope_counter(W, content)
            ctrs = [(c, n) for c, n, _ in ctrs3]
            if not ctrs:
                continue
            if len({c for c, _ in ctrs}) != 1:
                ck.incomplete("E7.counter-guard", "%s::content increments several fields %s" % (pc.cls, sorted({c for c, _ in ctrs})))
                continue
            C = ctrs[0][0]
            limits = set()
            probs = []
            unk, cunk = [], []
            # uses: the increment(s) and every subscript/call argument that mentions the counter, in content() and in the private
            # helpers it calls (their entry facts are the facts of the call sites)
            uses = [(n, g) for _, n, g in ctrs3]
            for g in [content] + W.helpers_of(content):
                for n in g.nodes():
                    if n.get("k") == "Index" and ("@" + C) in vars_of(n["idx"]):
                        uses.append((n, g))
                    elif n.get("k") == "OpCall" and n.get("op") in ("[]", "()") and any(("@" + C) in vars_of(a) for a in n.get("a", [])[1:]):
                        uses.append((n, g))
                    elif n.get("k") == "MCall" and n.get("n") in ("operator()", "operator[]", "at") and any(("@" + C) in vars_of(a) for a in n.get("a", [])):
                        uses.append((n, g))
            for u, ug in uses:
                e = W.ecfg(ug)
                fs = e.facts_at(u)
                if fs is None:
                    continue    # unreachable
                g = find_fact(fs, "<", A=C, truth=True)
                if not g and find_fact(fs, "<", B=C, truth=False):
                    lim_ = find_fact(fs, "<", B=C, truth=False)[0][1]
                    probs.append("line %s: `%s` is reached with %s <= %s only: the rejection covers %s > %s, so one item more than declared is stored (%s == %s)" % (
                        u.get("l"), render(u)[:40], C, lim_, C, lim_, C, lim_))
                    continue
                if not g and [f_ for f_ in fs if f_[0] == "==" and not f_[3] and C in (f_[1], f_[2])]:
                    eqf = [f_ for f_ in fs if f_[0] == "==" and not f_[3] and C in (f_[1], f_[2])][0]
                    lim_ = eqf[2] if eqf[1] == C else eqf[1]
                    unk.append("line %s: `%s` is reached under `%s != %s` only (rejection for equality): that bounds the counter only under the invariant %s <= %s, "
                               "which is not established by this rule" % (u.get("l"), render(u)[:40], C, lim_, C, lim_))
                    continue
                if not g:
                    sus = suspects(W, e, u, {"@" + C})
                    if sus:
                        unk.append("line %s: no `%s >= <limit>` rejection seen before `%s`, but %s may perform it" % (u.get("l"), C, render(u)[:40], sus))
                    else:
                        probs.append("line %s: `%s` is reached without a dominating `%s >= <limit>` rejection" % (u.get("l"), render(u)[:60], C))
                    continue
                for fa in g:
                    limits.add(fa[2])
                    orig = guard_origin(e, "<", C, fa[2], True)
                    ok = guard_documented_up(W, ug, "<", C, fa[2], True)
                    if not ok:
                        probs.append("line %s: the `%s >= %s` edge does not end in a documented Xml::*Error throw (%s)" % (
                            u.get("l"), C, fa[2], ";".join(",".join(e.throw_classes_from(o)) or "falls through" for _, o in orig) or "established by an assertion"))
            if len(limits) > 1:
                probs.append("counter %s is guarded against different limits %s" % (C, sorted(limits)))
            results_g.append((pc, content, probs, sorted(limits), unk))
            limits_by_cls[pc.cls] = sorted(limits)
            # close(): normal exits require counter >= limit
            ec = W.ecfg(close)
            cprobs = []
            exits = ec.normal_exits()
            if not exits:
                cunk.append("close() has no normal exit")
            for b in exits:
                fs = ec.facts_at_end(b, ec.exit) or set()
                g = find_fact(fs, "<", A=C, truth=False)
                if not g:
                    # `if(counter != limit) throw`: counter == limit at the exit, in particular not counter < limit
                    g = [("<", C, (f_[2] if f_[1] == C else f_[1]), False, f_[4], f_[5]) for f_ in fs if f_[0] == "==" and f_[3] and C in (f_[1], f_[2])]
                if not g and limits:
                    # a shortcut exit (`if(limit == 0) return;`): no assignment of the bounded model satisfies the facts of this exit
                    # together with counter < limit
                    for L_ in sorted(limits):
                        if REG.get(C) is None or REG.get(L_) is None:
                            continue
                        try:
                            wit, nok = small_model(set(fs), {"k": "Bin", "op": "-", "lhs": REG[C], "rhs": REG[L_]}, 1, lo_only=True)
                        except Unknown:
                            continue
                        if wit is None and nok > 0 and any(L_ in (f_[1], f_[2]) or C in (f_[1], f_[2]) for f_ in fs):
                            g = [("<", C, L_, False, frozenset(), frozenset())]
                            break
                if not g:
                    sus = suspects(W, ec, None, {"@" + C}, anywhere=True)
                    if sus:
                        cunk.append("no `%s < <limit>` rejection seen in close(), but %s may perform it" % (C, sus))
                    else:
                        cprobs.append("a normal exit (block %d, lines %s) is reachable with %s < limit: fewer items than declared are accepted" % (
                            b, ec.cfg.block_lines(ec.cfg.path_to(b) or [])[-3:], C))
                    continue
                lim2 = {fa[2] for fa in g}
                if limits and not (lim2 & limits):
                    cprobs.append("close() requires %s >= %s but content() guards with %s" % (C, sorted(lim2), sorted(limits)))
                for fa in g:
                    gd = guard_documented(W, ec, "<", C, fa[2], False)
                    if gd is None:
                        a_, b_ = sorted((C, fa[2]))
                        gd = guard_documented(W, ec, "==", a_, b_, True)
                    if gd is False:
                        cprobs.append("the `%s < %s` edge of close() does not end in a documented Xml::*Error throw" % (C, fa[2]))
            results_t.append((pc, close, cprobs, cunk))
        if not results_g:
            continue
        allp = [p for r in results_g for p in r[2]]
        allu = [p for r in results_g for p in r[4]]
        f0 = results_g[0][1]
        if allu and not allp:
            undecided(ck, "E7.counter-guard", "%s::content" % name, "; ".join(sorted(set(allu))))
        else:
            ck.ob("E7.counter-guard", "%s::content" % name, not allp,
                  "; ".join(sorted(set(allp))) if allp else "counter guarded by limit %s in %d instantiation(s)" % (results_g[0][3], len(results_g)),
                  f0.file, f0.line, sample={"class": results_g[0][0].cls, "limit": results_g[0][3]})
        allc = [p for r in results_t for p in r[2]]
        allcu = [p for r in results_t for p in r[3]]
        c0 = results_t[0][1]
        if allcu and not allc:
            undecided(ck, "E7.truncation", "%s::close" % name, "; ".join(sorted(set(allcu))))
        else:
            ck.ob("E7.truncation", "%s::close" % name, not allc,
                  "; ".join(sorted(set(allc))) if allc else "all normal exits require counter >= limit (%d instantiation(s))" % len(results_t),
                  c0.file, c0.line)
    return limits_by_cls


# -------------------------------------------------------------------------------------------------
# E7.parse-result-used
# -------------------------------------------------------------------------------------------------

def attr_of_receiver(f, call):
    """name K if the receiver of `call` is the value of attrs.find(K) (directly or through an iterator variable whose
    closest preceding binding is attrs.find(K))"""
    o = call.get("obj")
    for z in walk(o):
        if z.get("k") == "MCall" and z.get("n") == "find" and z.get("a") and str_value(z["a"][0]) is not None:
            return str_value(z["a"][0])
    r = root_var(o)
    if r is None:
        return None
    K, best = None, -1
    for n in f.nodes():
        tgt, init = None, None
        if n.get("k") == "Var" and n.get("init") is not None:
            tgt, init = n["n"], n["init"]
        elif n.get("k") == "OpCall" and n.get("op") == "=" and len(n.get("a", [])) == 2:
            tgt, init = root_var(n["a"][0]), n["a"][1]
        elif n.get("k") == "Assign" and n.get("op") == "=":
            tgt, init = root_var(n["lhs"]), n["rhs"]
        if tgt != r:
            continue
        for z in walk(init):
            if z.get("k") == "MCall" and z.get("n") == "find" and z.get("a") and str_value(z["a"][0]) is not None:
                if best < z.get("i", 0) < call.get("i", 1 << 30):
                    K, best = str_value(z["a"][0]), z.get("i", 0)
    return K


def out_arg_key(f, n):
    """instance name of a parse call: the attribute whose value is parsed, else the variable that receives the value"""
    K = attr_of_receiver(f, n)
    if K is not None:
        return "attr:" + K
    a = n.get("a", [])
    return norm(a[0]) if a else "?"


def rule_parse_used(ck, W, facts, file_re=None):
    seen = {}
    for f in facts.functions:
        if f.tk == "pattern" or f.cfg is None:
            continue
        if file_re is not None and not re.search(file_re, f.file):
            continue
        calls = [n for n in f.nodes() if n.get("k") == "MCall" and n.get("callee") == "FEAT::String::parse"]
        if not calls:
            continue
        e = W.ecfg(f)
        par = e.parents()
        ordn = {}
        for n in calls:
            base = "%s::%s/%s" % (short(f.cls) or "", f.name, out_arg_key(f, n))
            ordn[base] = ordn.get(base, 0) + 1
            key = base if ordn[base] == 1 else "%s#%d" % (base, ordn[base])
            # how is the value consumed?
            p = par.get(id(n))
            x = n
            while p is not None and ((p.get("k") == "Un" and p.get("op") == "!") or p.get("k") == "Cast"
                                     or (p.get("k") == "Bin" and p.get("op") in ("||", "&&"))):
                x, p = p, par.get(id(p))
            prob = None
            unkp = None
            if p is not None and p.get("k") == "Return":
                prob = None   # handed to the caller
            else:
                cb = call_branch(e, n)
                hit = (cb[0], cb[2]) if cb else None
                if hit is None:
                    if p is None or p.get("k") in ("Block", "If", "For", "While", "Do", "ForRange", "Case", "Default", "Switch"):
                        prob = "the result of `%s` is discarded: a token that does not parse leaves the default value in place and the input is accepted" % render(n)[:80]
                    else:
                        unkp = "the result of `%s` flows into `%s`, which is not followed" % (render(n)[:50], render(p)[:50])
                else:
                    b, fail = hit
                    if not e.only_throws_from(fail):
                        # definite only if the failure path reaches a normal exit without recording the failure anywhere
                        region = e.reachable(fail)
                        side = [x for bb in region for x in (e.fn.by_id(i) for i in e.el[bb]) if x is not None and
                                (x.get("k") == "Assign" or (x.get("k") == "Return" and strip(x.get("e")) is not None and strip(x["e"]).get("k") != "Bool")
                                 or (x.get("k") in ("Call", "MCall") and not MODELLED_CALLEES.match(x.get("callee") or "") and not (x.get("ccls") or "").startswith("std::")
                                     and not ACCESSOR_RE.match(x.get("n") or "x")))]
                        straight = e.exit in e.succ.get(fail, []) or not side
                        if straight and not any(x.get("k") == "Assign" for x in side):
                            prob = "a normal exit is reachable after `%s` failed" % render(n)[:80]
                        else:
                            unkp = "after `%s` failed the function continues through `%s`; whether the failure is rejected later is not followed" % (
                                render(n)[:50], render(side[0])[:40] if side else "?")
                    elif f.name in PARSER_METHODS and not documented(e.throw_classes_from(fail)):
                        prob = "failure of `%s` raises %s, not a documented Xml::*Error" % (render(n)[:60], e.throw_classes_from(fail))
            rec = seen.setdefault(key, {"probs": [], "unk": [], "fn": f, "line": n.get("l"), "n": 0})
            rec["n"] += 1
            if prob:
                rec["probs"].append(prob)
            if unkp:
                rec["unk"].append(unkp)
    for key, rec in sorted(seen.items()):
        if rec["unk"] and not rec["probs"]:
            undecided(ck, "E7.parse-result-used", key, "; ".join(sorted(set(rec["unk"]))))
            continue
        ck.ob("E7.parse-result-used", key, not rec["probs"],
              "; ".join(sorted(set(rec["probs"]))) if rec["probs"] else "tested, failure edge throws (%d instantiation(s))" % rec["n"],
              rec["fn"].file, rec["line"])


# -------------------------------------------------------------------------------------------------
# small-model evaluation of guards (bounded model 0..MAXV per free symbol; the guards are linear)
# -------------------------------------------------------------------------------------------------

class Unknown(Exception):
    pass


MAXV = 5
ARITH = ("+", "-", "*", "/", "%")


def leaves(n, out=None):
    """norm strings of the maximal non-arithmetic subexpressions of n"""
    out = set() if out is None else out
    n = strip(n)
    if n is None:
        return out
    k = n.get("k")
    if k in ("Int", "Bool"):
        return out
    if k == "Bin" and (n["op"] in ARITH or n["op"] in CMP or n["op"] in ("&&", "||")):
        leaves(n["lhs"], out)
        leaves(n["rhs"], out)
        return out
    if k == "Un" and n["op"] in ("!", "-", "+"):
        leaves(n["e"], out)
        return out
    if k == "Ref" and "v" in n and n.get("dk") not in ("local", "param"):
        return out
    out.add(norm(n))
    return out


def evalnode(n, env):
    n = strip(n)
    if n is None:
        raise Unknown("empty")
    k = n.get("k")
    if k == "Int":
        return int(n["v"])
    if k == "Bool":
        return 1 if n["v"] else 0
    if k == "Ref" and "v" in n and n.get("dk") not in ("local", "param"):
        return int(n["v"])
    if k == "Bin":
        op = n["op"]
        if op == "&&":
            return 1 if (evalnode(n["lhs"], env) and evalnode(n["rhs"], env)) else 0
        if op == "||":
            return 1 if (evalnode(n["lhs"], env) or evalnode(n["rhs"], env)) else 0
        a, b = evalnode(n["lhs"], env), evalnode(n["rhs"], env)
        if op == "+":
            return a + b
        if op == "-":
            return a - b
        if op == "*":
            return a * b
        if op in ("/", "%"):
            if b == 0:
                raise Unknown("division by zero")
            return a // b if op == "/" else a % b
        if op in CMP:
            return 1 if {"<": a < b, ">": a > b, "<=": a <= b, ">=": a >= b, "==": a == b, "!=": a != b}[op] else 0
        raise Unknown("operator " + op)
    if k == "Un" and n["op"] == "!":
        return 0 if evalnode(n["e"], env) else 1
    if k == "Un" and n["op"] == "-":
        return -evalnode(n["e"], env)
    s = norm(n)
    if s in env:
        return env[s]
    raise Unknown(s)


def eval_str(s, env):
    if s in env:
        return env[s]
    if re.fullmatch(r"-?\d+", s or ""):
        return int(s)
    n = REG.get(s)
    if n is None:
        raise Unknown(s)
    return evalnode(n, env)


def fact_holds(f, env):
    kind, A, B, truth = f[0], f[1], f[2], f[3]
    if kind == "b":
        v = eval_str(A, env)
        return bool(v) == truth
    a, b = eval_str(A, env), eval_str(B, env)
    return ((a < b) if kind == "<" else (a == b)) == truth


def fact_leaves(f):
    out = set()
    for s in (f[1], f[2]):
        if s is None or re.fullmatch(r"-?\d+", s):
            continue
        n = REG.get(s)
        if n is None:
            out.add(s)
        else:
            leaves(n, out)
    return out


def small_model(facts, idx, size, extra=None, lo_only=False):
    """search the bounded model for an assignment that satisfies all dominating facts but has
    idx outside [0,size).  idx/size: nodes or ints.  Returns (witness|None, n_consistent)."""
    syms = set()
    for x in (idx, size):
        if isinstance(x, dict):
            leaves(x, syms)
    rel = []
    for _ in range(3):
        for f in facts:
            fl = fact_leaves(f)
            if f not in rel and fl and (fl & syms):
                rel.append(f)
                syms |= fl
    # equalities `leaf == expr` become definitions
    defs = {}
    for f in rel:
        if f[0] == "==" and f[3]:
            for a, b in ((f[1], f[2]), (f[2], f[1])):
                na = REG.get(a)
                if a in syms and a not in defs and na is not None and leaves(na) == {a}:
                    nb = REG.get(b)
                    lb = leaves(nb) if nb is not None else set()
                    if a not in lb:
                        defs[a] = b
                        break
    free = sorted(syms - set(defs))
    if len(free) > 6:
        raise Unknown("too many symbols: %s" % free)
    n_ok = 0
    best = None
    for vals in itertools.product(range(0, MAXV + 1), repeat=len(free)):
        env = dict(zip(free, vals))
        if extra:
            env.update(extra)
        try:
            for _ in range(len(defs) + 1):
                for a, b in defs.items():
                    try:
                        env[a] = eval_str(b, env)
                    except Unknown:
                        pass
            if any(a not in env for a in defs):
                continue
            ok = True
            for f in rel:
                try:
                    if not fact_holds(f, env):
                        ok = False
                        break
                except Unknown:
                    continue
            if not ok:
                continue
            n_ok += 1
            i = evalnode(idx, env) if isinstance(idx, dict) else idx
            sz = evalnode(size, env) if isinstance(size, dict) else size
        except Unknown:
            raise
        if i < 0 or (not lo_only and i >= sz):
            w = ({k: v for k, v in env.items() if k in syms}, i, sz)
            if best is None or sz > best[2]:
                best = w
    return best, n_ok


def fmt_witness(w):
    env, i, sz = w
    return "%s gives index %d for size %d" % (", ".join("%s=%d" % kv for kv in sorted(env.items())), i, sz)


# -------------------------------------------------------------------------------------------------
# E7.token-guard
# -------------------------------------------------------------------------------------------------

SPLITS = ("FEAT::String::split_by_whitespaces", "FEAT::String::split_by_string", "FEAT::String::split_by_charset")


PARSER_CLS = set()


def reader_functions(facts):
    """every member function of a MarkupParser class (callbacks and private helpers) and of MeshFileReader"""
    for f in facts.functions:
        if f.tk == "pattern" or f.cfg is None:
            continue
        if f.cls in PARSER_CLS or f.cls == "FEAT::Geometry::MeshFileReader":
            yield f


def rule_tokens(ck, W, facts):
    seen = {}

    def analyse(f, name, from_line, rec, key, depth):
        """accesses of the token deque `name` (local or, in a helper, reference parameter) in f"""
        e = W.ecfg(f)
        # does the deque leave the modelled uses (own size/element accessors, begin/end, range-for, private helpers)?
        escapes = []
        iters = {}
        for x in f.nodes():
            if x.get("k") == "Ref" and x.get("n") == name and x.get("dk") in ("local", "param"):
                par_ = e.parent(x)
                while par_ is not None and par_.get("k") == "Cast":
                    par_ = e.parent(par_)
                if par_ is None:
                    continue
                if par_.get("k") == "MCall" and strip(par_.get("obj")) is x:
                    if par_.get("n") in ("size", "empty", "at", "front", "back", "operator[]", "begin", "end", "cbegin", "cend"):
                        if par_.get("n") in ("begin", "cbegin"):
                            v_ = e.parent(par_)
                            while v_ is not None and v_.get("k") in ("Cast", "Construct", "TempObj"):
                                v_ = e.parent(v_)
                            if v_ is not None and v_.get("k") == "Var":
                                iters[v_["n"]] = v_
                        continue
                if par_.get("k") == "OpCall" and par_.get("op") == "[]" and strip(par_["a"][0]) is x:
                    continue
                if par_.get("k") in ("ForRange", "Var", "Decl"):
                    continue
                if par_.get("k") == "MCall" and (par_.get("obj") is None or strip(par_["obj"]).get("k") == "This") and depth < 3:
                    # handed to a private helper of the class by reference: the helper's accesses are analysed with the facts of
                    # this call site (renamed to its parameter)
                    h = W.resolve(par_, f)
                    pos = [i for i, a in enumerate(par_.get("a", [])) if strip(a) is x]
                    if h is not None and h.cfg is not None and W.is_helper(h) and len(pos) == 1 and pos[0] < len(h.params) and h.params[pos[0]].get("n"):
                        pt = (h.type(h.params[pos[0]].get("t")) or "").strip()
                        if pt.endswith("&") and not pt.endswith("&&"):
                            analyse(h, h.params[pos[0]]["n"], from_line, rec, key, depth + 1)
                            continue
                escapes.append(render(par_)[:50])
        for itn, itv in iters.items():
            for x in f.nodes():
                if x.get("k") == "OpCall" and x.get("op") in ("->", "*") and len(x.get("a", [])) == 1 and strip(x["a"][0]).get("k") == "Ref" and strip(x["a"][0])["n"] == itn:
                    rec["acc"] += 1
                    fs_ = e.facts_at(x) or set()
                    a_, b_ = sorted((itn, "%s.end()" % name))
                    if not find_fact(fs_, "==", A=a_, B=b_, truth=False):
                        rec["unk"].append("line %s: token reached through iterator `%s` without a dominating `%s != %s.end()`; counting iterators is not modelled" % (x.get("l"), itn, itn, name))
        size_s = "%s.size()" % name
        for n in f.nodes():
            acc = None
            if n.get("k") == "MCall" and n.get("n") in ("at", "front", "back", "operator[]"):
                o = strip(n.get("obj"))
                if o is not None and o.get("k") == "Ref" and o.get("n") == name:
                    acc = n
                    arg = n.get("a", [None])[0] if n.get("n") in ("at", "operator[]") else None
            elif n.get("k") == "OpCall" and n.get("op") == "[]":
                o = strip(n["a"][0])
                if o is not None and o.get("k") == "Ref" and o.get("n") == name:
                    acc = n
                    arg = n["a"][1]
            if acc is None:
                continue
            rec["acc"] += 1
            fs = e.facts_at(acc)
            if fs is None:
                continue
            fs = set(fs)
            sizefacts = [x for x in fs if size_s in (x[1], x[2])]
            if from_line:
                # scanner contract (rule E7.scanner-nonempty-line): content lines are trimmed and non-empty
                fs.add(("<", "0", size_s, True, frozenset(), frozenset()))
            elif not sizefacts:
                if escapes:
                    rec["unk"].append("line %s: no check of %s seen before `%s`, but the deque is handed to %s" % (acc.get("l"), size_s, render(acc)[:40], escapes))
                else:
                    rec["probs"].append("line %s: `%s` without any dominating check of %s" % (acc.get("l"), render(acc)[:60], size_s))
                continue
            REG.setdefault(size_s, {"k": "Ref", "n": size_s, "dk": "local"})
            sz = REG[size_s]
            try:
                if acc.get("n") == "front":
                    wit, nok = small_model(fs, 0, sz)
                elif acc.get("n") == "back":
                    wit, nok = small_model(fs, {"k": "Bin", "op": "-", "lhs": sz, "rhs": {"k": "Int", "v": "1"}}, sz)
                else:
                    wit, nok = small_model(fs, arg, sz)
            except Unknown as ex:
                ck.incomplete("E7.token-guard", "%s line %s: cannot evaluate `%s` (%s)" % (key, acc.get("l"), render(acc)[:60], ex))
                continue
            if wit is not None:
                sus = suspects(W, e, acc, set(wit[0]) | {name})
                if escapes or sus:
                    rec["unk"].append("line %s: `%s` not provably in range, but %s may restrict it" % (acc.get("l"), render(acc)[:40], escapes or sus))
                else:
                    rec["probs"].append("line %s: `%s` can be out of range: %s" % (acc.get("l"), render(acc)[:60], fmt_witness(wit)))
            elif nok == 0:
                ck.incomplete("E7.token-guard", "%s line %s: no consistent assignment in the bounded model for `%s`" % (key, acc.get("l"), render(acc)[:60]))
            # the size check must reject with a documented exception
            for sf in sizefacts:
                orig = [o for _, o in guard_origin(e, sf[0], sf[1], sf[2], sf[3]) if e.only_throws_from(o)]
                if orig and f.name in PARSER_METHODS and not any(documented(e.throw_classes_from(o)) for o in orig):
                    rec["probs"].append("line %s: the size check on %s does not reject with a documented Xml::*Error" % (acc.get("l"), name))
        return escapes

    for f in reader_functions(facts):
        decls = {}
        for n in f.nodes():
            if n.get("k") == "Var" and n.get("init") is not None:
                i = strip(n["init"])
                if i.get("k") == "MCall" and i.get("callee") in SPLITS:
                    decls[n["n"]] = (n, i)
        if not decls:
            continue
        for name, (var, init) in decls.items():
            key = "%s::%s/%s" % (short(f.cls), f.name, name)
            rec = seen.setdefault(key, {"probs": [], "unk": [], "fn": f, "line": var.get("l") or init.get("l"), "n": 0, "acc": 0})
            rec["n"] += 1
            src = strip(init.get("obj"))
            from_line = (f.name == "content" and src is not None and src.get("k") == "Ref" and src.get("dk") == "param"
                         and len(f.params) >= 2 and src.get("n") == f.params[1]["n"])
            acc0 = rec["acc"]
            esc = analyse(f, name, from_line, rec, key, 0)
            if rec["acc"] == acc0 and esc:
                rec["unk"].append("no token access seen, the deque is only handed to %s" % esc)
    for key, rec in sorted(seen.items()):
        if rec["unk"] and not rec["probs"]:
            undecided(ck, "E7.token-guard", key, "; ".join(sorted(set(rec["unk"]))))
            continue
        ck.ob("E7.token-guard", key, not rec["probs"],
              "; ".join(sorted(set(rec["probs"]))) if rec["probs"] else "%d token accesses within the checked size (%d instantiation(s))" % (rec["acc"], rec["n"]),
              rec["fn"].file, rec["line"])


# -------------------------------------------------------------------------------------------------
# E2.attr-index-range: containers indexed by a parsed attribute value
# -------------------------------------------------------------------------------------------------

def parsed_vars(f):
    out = set()
    for n in f.nodes():
        if n.get("k") == "MCall" and n.get("callee") == "FEAT::String::parse" and n.get("a"):
            r = root_var(n["a"][0])
            if r:
                out.add(("@" + r) if is_this_field_root(n["a"][0], r) else r)
    return out


def is_this_field_root(e, r):
    for x in walk(strip(e)):
        if x.get("k") == "Member" and x.get("n") == r and is_this_field(x):
            return True
        if x.get("k") == "Ref" and x.get("n") == r:
            return False
    return False


def rule_attr_index(ck, W, facts):
    seen = {}
    for f in reader_functions(facts):
        pv = parsed_vars(f)
        if not pv:
            continue
        e = W.ecfg(f)
        for n in f.nodes():
            if not (n.get("k") == "MCall" and n.get("n") in ("at", "operator[]") and n.get("a")) and \
               not (n.get("k") == "OpCall" and n.get("op") == "[]" and re.match(r"std::(deque|vector|array)", n.get("ccls") or "")):
                continue
            if n.get("k") == "MCall":
                cont, arg = n.get("obj"), n["a"][0]
                if not re.match(r"std::(deque|vector|array)", n.get("ccls") or ""):
                    continue
            else:
                cont, arg = n["a"][0], n["a"][1]
            if not (vars_of(arg) & pv) or not is_this_field_root(cont, root_var(cont)):
                continue
            cname = norm(cont)
            key = "%s::%s/%s" % (short(f.cls), f.name, cname)
            rec = seen.setdefault(key, {"probs": [], "fn": f, "line": n.get("l"), "n": 0})
            rec["n"] += 1
            fs = e.facts_at(n)
            if fs is None:
                continue
            size_s = "%s.size()" % cname
            REG.setdefault(size_s, {"k": "Ref", "n": size_s, "dk": "local"})
            try:
                wit, nok = small_model(set(fs), arg, REG[size_s])
            except Unknown as ex:
                ck.incomplete("E2.attr-index-range", "%s line %s: cannot evaluate `%s` (%s)" % (key, n.get("l"), render(n)[:60], ex))
                continue
            if wit is not None:
                sus = suspects(W, e, n, vars_of(arg) | vars_of(cont))
                if sus:
                    rec.setdefault("unk", []).append("`%s` not provably inside the container, but %s may restrict the index" % (render(n)[:50], sus))
                else:
                    rec["probs"].append("`%s` is reached with an index outside the container: %s passes every preceding rejection" % (render(n)[:60], fmt_witness(wit)))
            elif nok == 0:
                ck.incomplete("E2.attr-index-range", "%s: no consistent assignment in the bounded model" % key)
    for key, rec in sorted(seen.items()):
        if rec.get("unk") and not rec["probs"]:
            undecided(ck, "E2.attr-index-range", key, "; ".join(sorted(set(rec["unk"]))))
            continue
        ck.ob("E2.attr-index-range", key, not rec["probs"],
              "; ".join(sorted(set(rec["probs"]))) if rec["probs"] else "index within [0,size) under the dominating rejections (%d accesses)" % rec["n"],
              rec["fn"].file, rec["line"])


# -------------------------------------------------------------------------------------------------
# E2.index-range: parsed entity indices are compared with the bound of the set they index
# -------------------------------------------------------------------------------------------------

def class_functions(facts):
    out = {}
    for f in facts.functions:
        if f.tk != "pattern" and f.cls:
            out.setdefault(f.cls, []).append(f)
    return out


def field_assignments(fns, field):
    """(function, rhs node) for every assignment `field = rhs` in the given functions (incl. ctor inits)"""
    out = []
    for f in fns:
        for n in f.nodes():
            if n.get("k") == "Assign" and n.get("op") == "=" and is_this_field(n["lhs"]) and strip(n["lhs"])["n"] == field:
                out.append((f, strip(n["rhs"])))
    return out


def local_init(f, name):
    for n in f.nodes():
        if n.get("k") == "Var" and n.get("n") == name and n.get("init") is not None:
            return strip(n["init"])
    return None


def index_store_bound(f, cfs, outarg):
    """if the parse out-argument is a cell of an IndexSet, return the norm string the value has to be
    compared with (the index bound of that set), else None.  ('?', reason) if unresolvable."""
    x = strip(outarg)
    # idx[i] with idx = _index_set[_read]   /   idx with idx = _indices[...]
    base = x
    if x.get("k") == "OpCall" and x.get("op") == "[]" and re.match(r"FEAT::Geometry::IndexTuple<", x.get("ccls") or ""):
        base = strip(x["a"][0])
    if base.get("k") == "Ref" and base.get("dk") == "local":
        init = local_init(f, base["n"])
        if init is None:
            return None
        base = init
    if base.get("k") == "OpCall" and base.get("op") == "[]" and re.match(r"FEAT::Geometry::IndexSet<", base.get("ccls") or ""):
        return norm(base["a"][0]) + ".get_index_bound()"
    if base.get("k") == "Index":
        p = strip(base["b"])
        if is_this_field(p):
            for g, rhs in field_assignments(cfs, p["n"]):
                if rhs.get("k") == "MCall" and re.match(r"FEAT::Geometry::IndexSet<.*>::get_indices$", rhs.get("callee") or ""):
                    recv = norm(rhs.get("obj"))
                    # which field holds recv.get_index_bound() ?
                    for n in g.nodes():
                        if n.get("k") == "Assign" and is_this_field(n["lhs"]):
                            r = strip(n["rhs"])
                            if r.get("k") == "MCall" and r.get("n") == "get_index_bound" and norm(r.get("obj")) == recv:
                                return strip(n["lhs"])["n"]
                    return ("?", "%s stores %s.get_indices() but no field keeps %s.get_index_bound()" % (g.name, recv, recv))
    return None


def index_store_name(f, outarg):
    """the field (index set / raw index pointer) a parsed index is stored into"""
    x = strip(outarg)
    for _ in range(4):
        if x is None:
            break
        if x.get("k") == "Ref" and x.get("dk") == "local":
            init = local_init(f, x["n"])
            if init is None:
                break
            x = init
        elif x.get("k") == "OpCall" and x.get("a"):
            x = strip(x["a"][0])
        elif x.get("k") == "Index":
            x = strip(x["b"])
        else:
            break
    return root_var(x) if x is not None and root_var(x) else norm(outarg)


def passes_check(e, start, fact3, back_to):
    """every path from block `start` to a normal exit or back to block `back_to` crosses an edge that
    establishes fact3=(kind,A,B,truth)"""
    cut = set()
    for b in e.el:
        for s in e.succ.get(b, []):
            if s is None:
                continue
            for fa in e.edge_facts(b, s):
                if (fa[0], fa[1], fa[2], fa[3]) == fact3:
                    cut.add((b, s))
    # a call of a private helper whose normal return establishes the fact (`_require_in_bounds(idx, ...)`) is a crossing as well
    cut_blocks = set()
    if WORLD[0] is not None:
        for b in e.el:
            for sid in e.el[b]:
                n = e.fn.by_id(sid)
                if n is not None and n.get("k") == "MCall" and (n.get("obj") is None or strip(n["obj"]).get("k") == "This"):
                    if any((fa[0], fa[1], fa[2], fa[3]) == fact3 for fa in WORLD[0].param_summary(n, e.fn)):
                        cut_blocks.add(b)
    cut_blocks.discard(back_to)       # (a call in front of the parse in its own block does not check the value parsed after it)
    if start in cut_blocks:
        return []
    reach = e.reachable(start, cut_edges=cut, avoid=cut_blocks)
    bad = []
    if e.exit in reach:
        bad.append("the end of the function")
    if back_to in reach and back_to != start:
        bad.append("the next loop iteration")
    return bad


def rule_index_range(ck, W, facts):
    cfs_all = class_functions(facts)
    seen = {}

    def record(key, f, line, prob, unk=None):
        rec = seen.setdefault(key, {"probs": [], "unk": [], "fn": f, "line": line, "n": 0})
        rec["n"] += 1
        if prob:
            rec["probs"].append(prob)
        if unk:
            rec["unk"].append(unk)

    def other_compare(e, V):
        """comparisons of V with anything, and calls V is handed to: the bound may be enforced in a form the rule does not match"""
        out = []
        for b in e.el:
            br = e.branch(b)
            if br is None:
                continue
            for fa in atom_facts(br[0], True):
                if fa[0] in ("<", "==") and V in (fa[1], fa[2]):
                    out.append("`%s %s %s`" % (fa[1], fa[0], fa[2]))
        return sorted(set(out))

    for f in reader_functions(facts):
        cfs = cfs_all.get(f.cls, [f])
        e = None
        for n in f.nodes():
            if not (n.get("k") == "MCall" and n.get("callee") == "FEAT::String::parse" and n.get("a")):
                continue
            bound = index_store_bound(f, cfs, n["a"][0])
            if bound is None:
                continue
            key = "%s::%s/%s" % (short(f.cls), f.name, index_store_name(f, n["a"][0]))
            if isinstance(bound, tuple):
                record(key, f, n.get("l"), None, bound[1])
                continue
            e = e or W.ecfg(f)
            cb = call_branch(e, n)
            hit = (cb[0], cb[1]) if cb else None
            if hit is None:
                record(key, f, n.get("l"), None)   # parse-result-used reports the unused result
                continue
            b, succ_ok = hit
            V = norm(n["a"][0])
            bad = passes_check(e, succ_ok, ("<", V, bound, True), b)
            if bad and not passes_check(e, succ_ok, ("<", bound, V, False), b):
                # every spelling of the comparison is normalised to the interval it rejects: here only (bound, oo) is rejected
                record(key, f, n.get("l"), "the parsed index `%s` is compared with %s, but only %s > %s is rejected: admissible indices are [0, %s), the "
                       "index %s == %s (one past the last entity) is stored in the index set" % (V, bound, V, bound, bound, V, bound))
                continue
            if bad:
                oth = other_compare(e, V) + suspects(W, e, None, vars_of(n["a"][0]), anywhere=True)
                if oth:
                    record(key, f, n.get("l"), None, "`%s` is not seen compared with %s, but %s may enforce the bound" % (V, bound, oth))
                    continue
            record(key, f, n.get("l"),
                   ("the parsed index `%s` reaches %s without being compared with %s: an out-of-range index is stored in the index set" % (V, " and ".join(bad), bound)) if bad else None)
        # DynamicGraph::insert arguments
        for n in f.nodes():
            if n.get("k") == "MCall" and n.get("callee") == "FEAT::Adjacency::DynamicGraph::insert" and len(n.get("a", [])) == 2:
                e = e or W.ecfg(f)
                recv = norm(n.get("obj"))
                pn = n.get("pn") or ["domain_node", "image_node"]
                for ai, (a, acc) in enumerate(zip(n["a"], ("get_num_nodes_domain", "get_num_nodes_image"))):
                    V = norm(a)
                    bound = "%s.%s()" % (recv, acc)
                    key = "%s/%s.insert:%s" % (short(f.cls), recv, pn[ai] if ai < len(pn) else ai)
                    if is_this_field(a):
                        # parsed in another callback: the bound must hold when that callback returns
                        done = False
                        for g in cfs:
                            if ("@" + V) in parsed_vars(g):
                                eg = W.ecfg(g)
                                probs = []
                                offby = False
                                for xb in eg.normal_exits():
                                    fs = eg.facts_at_end(xb, eg.exit) or set()
                                    if not find_fact(fs, "<", A=V, B=bound, truth=True):
                                        probs.append("%s() returns normally without `%s < %s`" % (g.name, V, bound))
                                        if find_fact(fs, "<", A=bound, B=V, truth=False):
                                            offby = True
                                            probs[-1] = "%s() rejects only %s > %s: %s == %s (one past the last node) is accepted" % (g.name, V, bound, V, bound)
                                if offby:
                                    record(key, g, g.line, "; ".join(sorted(set(probs))))
                                    done = True
                                    continue
                                oth = (other_compare(eg, V) + suspects(W, eg, None, {"@" + V}, anywhere=True)) if probs else []
                                if probs and oth:
                                    record(key, g, g.line, None, "%s; but %s may enforce it" % (probs[0], oth))
                                else:
                                    record(key, g, g.line, "; ".join(sorted(set(probs))) if probs else None)
                                done = True
                        if not done:
                            record(key, f, n.get("l"), None, "field %s is used as a graph node index but the callback that parses it was not found" % V)
                    else:
                        fs = e.facts_at(n) or set()
                        if find_fact(fs, "<", A=V, B=bound, truth=True):
                            record(key, f, n.get("l"), None)
                        elif find_fact(fs, "<", A=bound, B=V, truth=False):
                            record(key, f, n.get("l"), "`%s` is reached with %s <= %s only: the rejection covers %s > %s, %s == %s (one past the last node) is accepted" % (
                                render(n)[:50], V, bound, V, bound, V, bound))
                        else:
                            oth = other_compare(e, V) + suspects(W, e, n, vars_of(a))
                            if oth:
                                record(key, f, n.get("l"), None, "`%s < %s` not seen before `%s`, but %s may enforce it" % (V, bound, render(n)[:40], oth))
                            else:
                                record(key, f, n.get("l"), "`%s` is reached without `%s < %s`" % (render(n)[:60], V, bound))
    for key, rec in sorted(seen.items()):
        if rec["unk"] and not rec["probs"]:
            undecided(ck, "E2.index-range", key, "; ".join(sorted(set(rec["unk"]))))
            continue
        ck.ob("E2.index-range", key, not rec["probs"],
              "; ".join(sorted(set(rec["probs"]))) if rec["probs"] else "compared with the bound before it is kept (%d instantiation(s))" % rec["n"],
              rec["fn"].file, rec["line"])


# -------------------------------------------------------------------------------------------------
# E7.mandatory-attr
# -------------------------------------------------------------------------------------------------

def attribs_table(fn):
    """{name: mandatory} registered by an attribs() body and whether it returns true on all paths.  Registration forms:
    emplace / try_emplace / insert_or_assign (K, B), insert(std::make_pair(K, B)) / insert(std::pair(K, B)) / insert({K, B}),
    attrs[K] = B.  Any other use of the map (another mutator, handing it to a function) -> (None, None): not understood."""
    table = {}
    mp = fn.params[0]["n"] if fn.params else None

    def key_bool(k, v):
        ks = norm(k)
        sv = strip(v)
        if ks.startswith('"') and sv is not None and sv.get("k") == "Bool":
            table[ks.strip('"')] = bool(sv["v"])
            return True
        return False

    def pair_of(x):
        """(key node, value node) of a std::pair construction / std::make_pair call / braced pair"""
        x = strip(x)
        for _ in range(4):
            if x is None:
                return None
            if x.get("k") == "Call" and x.get("callee") in ("std::make_pair",) and len(x.get("a", [])) == 2:
                return x["a"][0], x["a"][1]
            if x.get("k") in ("Construct", "TempObj") and re.match(r"std::pair<", x.get("ccls") or "") and len(x.get("a", [])) == 2:
                return x["a"][0], x["a"][1]
            if x.get("k") == "InitList" and len(x.get("a") or x.get("e") or x.get("s") or []) == 2:
                it = x.get("a") or x.get("e") or x.get("s")
                return it[0], it[1]
            if x.get("k") in ("Construct", "TempObj") and len(x.get("a", [])) == 1:
                x = strip(x["a"][0])        # converting / copy construction of the pair
                continue
            return None
        return None
    handled = set()
    for n in fn.nodes():
        k = n.get("k")
        if k == "MCall" and root_var(n.get("obj")) == mp and mp is not None and strip(n.get("obj")).get("k") == "Ref":
            nm, args = n.get("n"), n.get("a", [])
            if nm in ("emplace", "try_emplace", "insert_or_assign") and len(args) == 2 and key_bool(args[0], args[1]):
                handled.add(id(strip(n["obj"])))
                continue
            if nm == "insert" and len(args) == 2 and key_bool(args[0], args[1]):
                handled.add(id(strip(n["obj"])))
                continue
            if nm == "insert" and len(args) == 1:
                pr = pair_of(args[0])
                if pr is not None and key_bool(pr[0], pr[1]):
                    handled.add(id(strip(n["obj"])))
                    continue
            if n.get("cconst") or nm in ("size", "empty", "find", "count", "begin", "end", "cbegin", "cend"):
                handled.add(id(strip(n["obj"])))
                continue
            return None, None
        # attrs[K] = B
        if (k == "Assign" and n.get("op") == "=") or (k == "OpCall" and n.get("op") == "=" and len(n.get("a", [])) == 2):
            lhs, rhs = (n["lhs"], n["rhs"]) if k == "Assign" else (n["a"][0], n["a"][1])
            sl = strip(lhs)
            if sl is not None and sl.get("k") == "OpCall" and sl.get("op") == "[]" and len(sl.get("a", [])) == 2 and strip(sl["a"][0]).get("k") == "Ref" \
               and strip(sl["a"][0]).get("n") == mp:
                if key_bool(sl["a"][1], rhs):
                    handled.add(id(strip(sl["a"][0])))
                    continue
                return None, None
    # every other mention of the map (argument of a call, alias, iterator loops that insert ...) is not understood
    for n in fn.nodes():
        if n.get("k") == "Ref" and n.get("n") == mp and n.get("dk") == "param" and id(n) not in handled:
            return None, None
    rets = [strip(n.get("e")) for n in fn.nodes() if n.get("k") == "Return"]
    checks = bool(rets) and all(r is not None and r.get("k") == "Bool" and r["v"] for r in rets)
    return table, checks


def rule_mandatory(ck, W, pcs, facts):
    seen = {}
    cfs_all = class_functions(facts)
    work = []
    for pc in pcs:
        table, checks = attribs_table(pc.m["attribs"])
        for f in cfs_all.get(pc.cls, []):
            if f.cfg is None:
                continue
            for prm in f.params:
                t = f.type(prm["t"]) or ""
                if re.search(r"std::map<(FEAT::)?String, (FEAT::)?String", t):
                    work.append((pc, table, checks, f, prm["n"]))
    for pc, table, checks, f, attrs in work:
        e = None
        for n in f.nodes():
            if not (n.get("k") == "MCall" and n.get("n") in ("find", "at") and strip(n.get("obj")) is not None
                    and strip(n["obj"]).get("k") == "Ref" and strip(n["obj"]).get("n") == attrs and n.get("a")):
                continue
            K = norm(n["a"][0]).strip('"')
            key = "%s::create/%s" % (pc.short, K)
            rec = seen.setdefault(key, {"probs": [], "unk": [], "fn": f, "line": n.get("l"), "n": 0})
            rec["n"] += 1
            if table is None:
                ck.incomplete("E7.mandatory-attr", "%s::attribs registers attributes in a form that is not understood" % pc.cls)
                continue
            e = e or W.ecfg(f)
            par = e.parents()
            p = par.get(id(n))
            while p is not None and p.get("k") == "Cast":
                p = par.get(id(p))
            # direct dereference: find(K)->second ; attrs.at(K) is the look-up and the dereference in one (std::out_of_range, which is
            # not a documented rejection, if K is absent)
            derefs = []
            if n.get("n") == "at":
                derefs.append((n, None))
            elif p is not None and p.get("k") == "OpCall" and p.get("op") in ("->", "*"):
                derefs.append((p, None))
            elif p is not None and p.get("k") == "Var":
                it = p["n"]
                for x in f.nodes():
                    if x.get("k") == "OpCall" and x.get("op") in ("->", "*") and strip(x["a"][0]).get("k") == "Ref" and strip(x["a"][0])["n"] == it:
                        derefs.append((x, it))
            if K not in table:
                if checks:
                    rec["probs"].append("attribute '%s' is looked up but not registered in attribs(): the scanner rejects it as unexpected" % K)
                continue
            for d, it in derefs:
                guarded = False
                if it is not None:
                    fs = e.facts_at(d) or set()
                    endn = "%s.end()" % attrs
                    a, b = sorted((it, endn))
                    guarded = bool(find_fact(fs, "==", A=a, B=b, truth=False))
                else:
                    # the same look-up compared with end() on every path to this one (`if(attrs.find(K) != attrs.end()) ... attrs.at(K)`)
                    fs = e.facts_at(d) or set()
                    a, b = sorted(('%s.find("%s")' % (attrs, K), "%s.end()" % attrs))
                    guarded = bool(find_fact(fs, "==", A=a, B=b, truth=False)) or \
                        bool(find_fact(fs, "<", A="0", B='%s.count("%s")' % (attrs, K), truth=True)) or bool(find_fact(fs, "==", A="0", B='%s.count("%s")' % (attrs, K), truth=False))
                if guarded:
                    continue
                if not (table.get(K) and checks):
                    alt = [render(x)[:40] for x in f.nodes() if x.get("k") == "MCall" and x.get("n") in ("count", "contains", "at")
                           and root_var(x.get("obj")) == attrs] + suspects(W, e, d, {attrs} | ({it} if it else set()))
                    if alt:
                        rec["unk"].append("line %s: find(\"%s\") dereferenced without a visible end() check, but %s may guard it" % (d.get("l"), K, alt))
                    else:
                        rec["probs"].append("line %s: find(\"%s\") is dereferenced without an end() check although '%s' is %s" % (
                            d.get("l"), K, K, "optional" if checks else "not validated (attribs() returns false)"))
        # look-ups through a shared helper: `helper(attrs, "K")` whose body searches its map parameter for its key parameter
        # (`const String* find_attrib(attrs, key)`): the look-up of K happens there, the value is used here
        for n in f.nodes():
            if n.get("k") not in ("Call", "MCall") or (n.get("ccls") or "").startswith("std::") or (n.get("callee") or "").startswith("std::"):
                continue
            args = n.get("a", [])
            ai = [i for i, a in enumerate(args) if strip(a) is not None and strip(a).get("k") == "Ref" and strip(a).get("n") == attrs and strip(a).get("dk") == "param"]
            if len(ai) != 1:
                continue
            g = W.resolve(n, f) or W.fns.get(n.get("cfull"))
            if g is None or g.cfg is None or ai[0] >= len(g.params) or table is None:
                continue
            mp = g.params[ai[0]].get("n")
            for j, a in enumerate(args):
                K = str_value(a)
                if K is None or j >= len(g.params) or not g.params[j].get("n"):
                    continue
                kp = g.params[j]["n"]
                lookups = [x for x in g.nodes() if x.get("k") == "MCall" and x.get("n") in ("find", "at") and strip(x.get("obj")) is not None
                           and strip(x["obj"]).get("k") == "Ref" and strip(x["obj"]).get("n") == mp and x.get("a")
                           and strip(x["a"][0]) is not None and strip(x["a"][0]).get("k") == "Ref" and strip(x["a"][0]).get("n") == kp]
                if not lookups:
                    continue
                key = "%s::create/%s" % (pc.short, K)
                rec = seen.setdefault(key, {"probs": [], "unk": [], "fn": f, "line": n.get("l"), "n": 0})
                rec["n"] += 1
                if K not in table:
                    if checks:
                        rec["probs"].append("attribute '%s' is looked up (through %s()) but not registered in attribs(): the scanner rejects it as unexpected" % (K, g.name))
                    continue
                if table.get(K) and checks:
                    continue          # mandatory and validated by the scanner: present
                # (a) inside the helper every dereference of the look-up is guarded by the end() test
                eg = W.ecfg(g)
                for lk in lookups:
                    pv = eg.parent(lk)
                    while pv is not None and pv.get("k") == "Cast":
                        pv = eg.parent(pv)
                    if lk.get("n") == "at" or (pv is not None and pv.get("k") == "OpCall" and pv.get("op") in ("->", "*")):
                        rec["probs"].append("%s() dereferences the look-up of its key directly (line %s) although '%s' is optional" % (g.name, lk.get("l"), K))
                    elif pv is not None and pv.get("k") == "Var":
                        itn = pv["n"]
                        for x in g.nodes():
                            if x.get("k") == "OpCall" and x.get("op") in ("->", "*") and strip(x["a"][0]).get("k") == "Ref" and strip(x["a"][0])["n"] == itn:
                                a_, b_ = sorted((itn, "%s.end()" % mp))
                                if not find_fact(eg.facts_at(x) or set(), "==", A=a_, B=b_, truth=False):
                                    rec["probs"].append("%s() dereferences `%s` at line %s without the end() test although '%s' is optional" % (g.name, itn, x.get("l"), K))
                    else:
                        rec["unk"].append("%s(): use of the look-up result `%s` is not followed" % (g.name, render(pv or lk)[:40]))
                # (b) a pointer result is dereferenced here only where it was tested (it is null exactly if K is absent)
                rt = (g.type(g.d.get("rt")) if g.d.get("rt") is not None else "") or ""
                e = e or W.ecfg(f)
                pv = e.parent(n)
                while pv is not None and pv.get("k") == "Cast":
                    pv = e.parent(pv)
                if pv is not None and pv.get("k") == "Var":
                    rn = pv["n"]
                    for x in f.nodes():
                        der = None
                        if x.get("k") == "Un" and x.get("op") == "*" and strip(x["e"]) is not None and strip(x["e"]).get("k") == "Ref" and strip(x["e"]).get("n") == rn:
                            der = x
                        elif x.get("k") in ("Member", "MCall") and x.get("arrow") and strip(x.get("b") or x.get("obj")) is not None \
                                and strip(x.get("b") or x.get("obj")).get("k") == "Ref" and strip(x.get("b") or x.get("obj")).get("n") == rn:
                            der = x
                        if der is None:
                            continue
                        fs = e.facts_at(der) or set()
                        nonnull = find_fact(fs, "b", A=rn, truth=True) or [f_ for f_ in fs if f_[0] == "==" and not f_[3] and rn in (f_[1], f_[2]) and ({f_[1], f_[2]} & {"nullptr", "0", "NULL"})]
                        if not nonnull:
                            rec["probs"].append("line %s: the result of %s(%s, \"%s\") is dereferenced without a null test although '%s' is optional" % (der.get("l"), g.name, attrs, K, K))
                elif "*" in rt:
                    rec["unk"].append("line %s: the pointer returned by %s(%s, \"%s\") is used in `%s`, which is not followed" % (n.get("l"), g.name, attrs, K, render(pv or n)[:40]))
    for key, rec in sorted(seen.items()):
        if rec["unk"] and not rec["probs"]:
            undecided(ck, "E7.mandatory-attr", key, "; ".join(sorted(set(rec["unk"]))))
            continue
        ck.ob("E7.mandatory-attr", key, not rec["probs"],
              "; ".join(sorted(set(rec["probs"]))) if rec["probs"] else "guarded by end() or registered mandatory (%d instantiation(s))" % rec["n"],
              rec["fn"].file, rec["line"])
    # MeshFileReader::read_root_markup reads the scanner's attribute map itself
    for f in facts.find(qn_re=r"MeshFileReader::read_root_markup$"):
        e = W.ecfg(f)
        for n in f.nodes():
            if n.get("k") == "Var" and n.get("init") is not None and strip(n["init"]).get("k") == "MCall" and strip(n["init"]).get("n") == "find":
                it = n["n"]
                init = strip(n["init"])
                K = norm(init["a"][0]).strip('"')
                cont = norm(init.get("obj"))
                probs = []
                for x in f.nodes():
                    if x.get("k") == "OpCall" and x.get("op") in ("->", "*") and strip(x["a"][0]).get("k") == "Ref" and strip(x["a"][0])["n"] == it:
                        fs = e.facts_at(x) or set()
                        a, b = sorted((it, "%s.end()" % cont))
                        if not find_fact(fs, "==", A=a, B=b, truth=False):
                            probs.append("line %s: `%s` dereferenced without a dominating end() rejection" % (x.get("l"), it))
                ck.ob("E7.mandatory-attr", "MeshFileReader::read_root_markup/%s" % K, not probs, "; ".join(probs) or "guarded by end()", f.file, n.get("l"))


# -------------------------------------------------------------------------------------------------
# E2.counter-extent
# -------------------------------------------------------------------------------------------------

EXTENT_OF = [
    (r"^FEAT::Geometry::VertexSet<.*>::operator\[\]$", "get_num_vertices"),
    (r"^FEAT::Geometry::IndexSet<.*>::operator\[\]$", "get_num_entities"),
    (r"^FEAT::Geometry::TargetSet::operator\[\]$", "get_num_entities"),
]


def iteration_below(f, it, S, fs):
    """`it` is the iteration number lib/norm_c11.py gave a range-for loop (a cursor `++p` at the end of its body was rewritten to
    p0[.. + it]): it < S holds if the traversed container is not resized in the body and its size() is known to equal S"""
    it = strip(it)
    if it is None or it.get("k") != "Ref" or not str(it.get("n", "")).startswith("$it"):
        return False
    for lp in f.nodes():
        if lp.get("k") == "ForRange" and (lp.get("_iter") or {}).get("n") == it["n"]:
            R = norm(lp.get("range"))
            rv = root_var(lp.get("range"))
            for x in walk(lp.get("body")):
                if x.get("k") == "MCall" and root_var(x.get("obj")) == rv and not x.get("cconst") and x.get("n") not in ("at", "operator[]", "front", "back", "begin", "end", "size", "empty"):
                    return False
                if x.get("k") in ("Assign",) and root_var(x.get("lhs")) == rv and strip(x["lhs"]).get("k") == "Ref":
                    return False
            sz = R + ".size()"
            return bool(find_fact(fs, "==", A=sz, B=S, truth=True) or find_fact(fs, "==", A=S, B=sz, truth=True))
    return False


def rule_counter_extent(ck, W, pcs, facts, limits):
    cfs_all = class_functions(facts)
    seen = {}
    for pc in pcs:
        content = pc.m["content"]
        ctrs = scope_counter(W, content)
        if not ctrs:
            continue
        C = ctrs[0][0]
        lims = limits.get(pc.cls) or []
        cfs = cfs_all.get(pc.cls, [])
        for n, nfn in [(x, g) for g in [content] + W.helpers_of(content) for x in g.nodes()]:
            exp = None
            what = None
            if n.get("k") == "OpCall" and n.get("op") == "[]" and len(n.get("a", [])) == 2 and norm(n["a"][1]) == C:
                for rx, acc in EXTENT_OF:
                    if re.match(rx, n.get("callee") or ""):
                        exp = "%s.%s()" % (norm(n["a"][0]), acc)
                        what = norm(n["a"][0])
            elif ((n.get("k") == "MCall" and n.get("n") == "operator()" and n.get("a") and norm(n["a"][0]) == C) or
                  (n.get("k") == "OpCall" and n.get("op") == "()" and len(n.get("a", [])) >= 2 and norm(n["a"][1]) == C)) \
                    and re.match(r"FEAT::Geometry::AttributeSet<", n.get("ccls") or n.get("callee") or ""):
                # attribute value (counter, j): member-call spelling `_attrib->operator()(c, j)` or call spelling `(*_attrib)(c, j)` / `alias(c, j)`
                fld = root_var(n.get("obj") if n.get("k") == "MCall" else n["a"][0])
                what = fld
                exp = ("?", "no `%s.reset(new AttributeSet(n, dim))` found" % fld)
                for g in cfs:
                    for x in g.nodes():
                        # the owning pointer is (re)seated: fld.reset(new T(n, dim)) / fld = std::unique_ptr<T>(new T(n, dim)) /
                        # fld = std::make_unique<T>(n, dim)
                        src = None
                        if x.get("k") == "MCall" and x.get("n") == "reset" and root_var(x.get("obj")) == fld and x.get("a"):
                            src = x["a"][0]
                        elif x.get("k") == "OpCall" and x.get("op") == "=" and len(x.get("a", [])) == 2 and is_this_field(x["a"][0]) and strip(x["a"][0])["n"] == fld:
                            src = x["a"][1]
                        if src is None:
                            continue
                        for y in walk(src):
                            if y.get("k") == "New":
                                cs = [c for c in children(y) if c.get("k") == "Construct"]
                                if cs and cs[0].get("a"):
                                    exp = norm(cs[0]["a"][0])
                            elif y.get("k") == "Call" and y.get("callee") == "std::make_unique" and y.get("a") and "AttributeSet" in (y.get("cfull") or ""):
                                exp = norm(y["a"][0])
            elif n.get("k") == "Index" and ("@" + C) in vars_of(n["idx"]) and is_this_field(n["b"]) and not n.get("_addr_of_alias"):
                # (`T* const p = &field[e];` only forms an address: the accesses are the uses of p, rewritten by lib/norm_c11.py)
                fld = strip(n["b"])["n"]
                what = fld
                exp = ("?", "no assignment `%s = X.get_indices()` found" % fld)
                idx = strip(n["idx"])
                S = None
                stride_form = norm(idx) == C
                if not stride_form and idx.get("k") == "Bin" and idx["op"] == "+" and strip(idx["lhs"]).get("k") == "Bin" and strip(idx["lhs"])["op"] == "*":
                    mul = strip(idx["lhs"])
                    ops = [norm(mul["lhs"]), norm(mul["rhs"])]
                    if C in ops:
                        S = ops[1 - ops.index(C)]
                        fs = W.ecfg(nfn).facts_at(n) or set()
                        stride_form = bool(find_fact(fs, "<", A=norm(idx["rhs"]), B=S, truth=True)) or iteration_below(nfn, idx["rhs"], S, fs)
                exps = []
                for g, rhs in field_assignments(cfs, fld):
                    if not (rhs.get("k") == "MCall" and rhs.get("n") == "get_indices"):
                        exps.append(("?", "%s() assigns %s from `%s`, not from a get_indices() accessor" % (g.name, fld, render(rhs)[:50])))
                        continue
                    recv = norm(rhs.get("obj"))
                    ex1 = ("?", "%s() stores %s.get_indices() but no field keeps %s.get_num_entities()" % (g.name, recv, recv))
                    for x in g.nodes():
                        if x.get("k") == "Assign" and is_this_field(x["lhs"]):
                            r = strip(x["rhs"])
                            if r.get("k") == "MCall" and r.get("n") == "get_num_entities" and norm(r.get("obj")) == recv and not r.get("a"):
                                ex1 = strip(x["lhs"])["n"]
                    if isinstance(ex1, tuple):
                        # definite: the field the counter is rejected against is filled from another accessor of the same set
                        for x in g.nodes():
                            if x.get("k") == "Assign" and is_this_field(x["lhs"]) and strip(x["lhs"])["n"] in lims:
                                r = strip(x["rhs"])
                                if r.get("k") == "MCall" and norm(r.get("obj")) == recv and r.get("n") != "get_num_entities" and not r.get("a"):
                                    ex1 = ("!", "%s() sets the rejection limit %s = %s.%s(), but %s points to %s.get_indices() whose extent is %s.get_num_entities()" % (
                                        g.name, strip(x["lhs"])["n"], recv, r.get("n"), fld, recv, recv))
                    m = re.match(r"FEAT::Geometry::IndexSet<(\d+)>", rhs.get("ccls") or "")
                    if m:
                        # tuple storage: the subscript must be counter*tuple_size+i, i < tuple_size, tuple_size = n of IndexSet<n>
                        sv = [norm(r) for gg, r in field_assignments([g], S)] if S else []
                        if stride_form and S and sv and all(re.fullmatch(r"\d+", v) for v in sv) and any(v != m.group(1) for v in sv):
                            ex1 = ("!", "%s() sets the tuple stride %s = %s but the storage is IndexSet<%s>" % (g.name, S, sv, m.group(1)))
                        elif not (stride_form and S and sv and all(v == m.group(1) for v in sv)):
                            ex1 = ("?", "subscript `%s` of tuple storage IndexSet<%s> is not counter*%s+i with i < %s (%s() sets %s = %s)" % (
                                norm(idx), m.group(1), m.group(1), m.group(1), g.name, S, sv))
                    elif norm(idx) != C:
                        ex1 = ("?", "subscript `%s` of scalar index storage is not the counter itself" % norm(idx))
                    exps.append(ex1)
                bad = [x for x in exps if isinstance(x, tuple)]
                if bad:
                    exp = bad[0]
                elif exps and len(set(exps)) == 1:
                    exp = exps[0]
                elif exps:
                    exp = ("?", "different extent fields %s" % sorted(set(exps)))
            if exp is None:
                continue
            key = "%s::content/%s" % (pc.short, what)
            rec = seen.setdefault(key, {"probs": [], "unk": [], "fn": content, "line": n.get("l"), "n": 0})
            rec["n"] += 1
            if isinstance(exp, tuple):
                (rec["probs"] if exp[0] == "!" else rec["unk"]).append(exp[1])
            elif not lims:
                rec["unk"].append("no rejection limit of %s was established (see E7.counter-guard)" % C)
            elif exp not in lims and exp in {norm(rhs_) for L_ in lims for _g, rhs_ in field_assignments(cfs, L_)}:
                pass          # the limit field is assigned from the very expression that sizes the container (named temporary in between)
            elif exp not in lims:
                rec["probs"].append("`%s` is indexed by %s, whose rejection limit is %s, but the extent of the container is %s" % (what, C, lims, exp))
    for key, rec in sorted(seen.items()):
        if rec["unk"] and not rec["probs"]:
            undecided(ck, "E2.counter-extent", key, "; ".join(sorted(set(rec["unk"]))))
            continue
        ck.ob("E2.counter-extent", key, not rec["probs"],
              "; ".join(sorted(set(rec["probs"]))) if rec["probs"] else "limit is the extent of the indexed container (%d instantiation(s))" % rec["n"],
              rec["fn"].file, rec["line"])


# -------------------------------------------------------------------------------------------------
# XML scanner: E7.scanner-stack, E7.scanner-line-count, E7.scanner-nonempty-line
# -------------------------------------------------------------------------------------------------

def rule_scanner(ck, W, sfacts):
    fns = [f for f in sfacts.functions if f.cls == "FEAT::Xml::Scanner" and f.cfg is not None]
    if not fns:
        ck.incomplete("E7.scanner-stack", "class FEAT::Xml::Scanner not found")
        return
    byname = {}
    for f in fns:
        byname.setdefault(f.name, []).append(f)
    # the stack member: the std::vector field whose back()/pop_back() are called
    uses = []
    for f in fns:
        for n in f.nodes():
            if n.get("k") == "MCall" and n.get("n") in ("back", "pop_back", "front") and is_this_field(n.get("obj")) \
               and (n.get("ccls") or "").startswith("std::vector<FEAT::Xml::Scanner::MarkupInfo"):
                uses.append((f, n))
    need_pre = {}    # function full -> list of (use) that rely on the caller
    for f, n in uses:
        e = W.ecfg(f)
        stack = strip(n["obj"])["n"]
        key = "Scanner::%s/%s.%s@%s" % (f.name, stack, n["n"], "")
        fs = e.facts_at(n)
        if fs is None:
            continue
        if find_fact(fs, "<", A="0", B="%s.size()" % stack, truth=True):
            need_pre.setdefault((f.full, stack), []).append((f, n, True))
            continue
        # precondition of f?  yes if nothing on any path entry -> n may shrink the stack
        w = e.where(n)
        shr = False
        if w is not None:
            reach_back = set()
            st = [w[0]]
            while st:
                b = st.pop()
                if b in reach_back:
                    continue
                reach_back.add(b)
                st.extend(e.pred.get(b, []))
            for b in reach_back:
                for sid in e.el[b]:
                    if b == w[0] and sid == w[1]:
                        break
                    x = f.by_id(sid)
                    if x is not None and ("@" + stack) in e._kills(x):
                        shr = True
        need_pre.setdefault((f.full, stack), []).append((f, n, False if shr else None))
    def class_sites(f):
        """call sites of a member function on `this` inside the class: a use in a shared helper is one instance per call site
        (de-duplicating two identical blocks into a helper must not reduce what is checked)"""
        out = []
        for g in fns:
            for c in g.nodes():
                if c.get("k") == "MCall" and c.get("cfull") == f.full and (c.get("obj") is None or strip(c["obj"]).get("k") == "This"):
                    out.append((g, c))
        return out
    ordn = {}
    for (full, stack), lst in sorted(need_pre.items()):
        for f, n, st in lst:
            base = "Scanner::%s/%s.%s" % (f.name, stack, n["n"])
            ordn[base] = ordn.get(base, 0) + 1
            key = "%s#%d" % (base, ordn[base])
            sites = class_sites(f)
            keys = [key] if len(sites) <= 1 else ["%s@%s#%d" % (key, g.name, k + 1) for k, (g, c) in enumerate(sites)]
            if st is True:
                for key_ in keys:
                    ck.ob("E7.scanner-stack", key_, True, "dominated by a non-empty check in the function", f.file, n.get("l"))
            elif st is False:
                for key_ in keys:
                    ck.ob("E7.scanner-stack", key_, False,
                          "`%s` is reached after the stack may have shrunk, without a non-empty check: a surplus terminator / closed markup pops an empty stack" % render(n)[:50], f.file, n.get("l"))
            else:
                # obligation moves to the call sites inside the class
                if not sites:
                    undecided(ck, "E7.scanner-stack", key, "`%s` relies on a non-empty stack as a precondition of %s(), which has no caller inside the class" % (render(n)[:50], f.name))
                    continue
                for key_, (g, c) in zip(keys, sites):
                    fs = W.ecfg(g).facts_at(c)
                    bad_ = fs is not None and not find_fact(fs, "<", A="0", B="%s.size()" % stack, truth=True)
                    ck.ob("E7.scanner-stack", key_, not bad_,
                          ("%s() calls %s() at line %s where the stack may be empty" % (g.name, f.name, c.get("l"))) if bad_ else "non-empty at the call site in %s()" % g.name,
                          f.file, n.get("l"))

    # create/close pairing: a parser is only popped from the stack after its close() callback ran
    for f in fns:
        e = None
        for n in f.nodes():
            if n.get("k") == "MCall" and n.get("n") == "pop_back" and is_this_field(n.get("obj")) \
               and (n.get("ccls") or "").startswith("std::vector<FEAT::Xml::Scanner::MarkupInfo"):
                e = e or W.ecfg(f)
                stack = strip(n["obj"])["n"]
                pops = [x for x in f.nodes() if x.get("k") == "MCall" and x.get("n") == "pop_back" and is_this_field(x.get("obj")) and strip(x["obj"])["n"] == stack]
                key = "Scanner::%s/%s.pop_back#%d" % (f.name, stack, 1 + [id(x) for x in pops].index(id(n)))
                fs = e.facts_at(n)
                if fs is None:
                    continue
                if find_fact(fs, "b", A="closed(%s.back())" % stack, truth=True):
                    sites = class_sites(f)
                    for key_ in ([key] if len(sites) <= 1 else ["%s@%s#%d" % (key, g.name, k + 1) for k, (g, c) in enumerate(sites)]):
                        ck.ob("E7.scanner-close-pairing", key_, True, "every path to the pop passes close() of the top parser", f.file, n.get("l"))
                    continue
                # the other callbacks of the MarkupParser interface (attribs/create/markup/content) are not close()
                sus = suspects(W, e, n, {"@" + stack}, ignore=r"^FEAT::Xml::MarkupParser::")
                if sus:
                    undecided(ck, "E7.scanner-close-pairing", key, "no close() of the top parser seen before the pop, but %s may call it" % sus)
                else:
                    ck.ob("E7.scanner-close-pairing", key, False,
                          "`%s` is reachable on a path on which the top parser's close() callback was not called: the element's completeness checks "
                          "(declared counts, mandatory children) are skipped, e.g. for a self-closed markup `<X ... />`" % render(n)[:40], f.file, n.get("l"))

    # line counter: every getline on the stream is followed by an increment of the line counter field
    for f in fns:
        e = None
        for n in f.nodes():
            if n.get("k") == "Call" and re.match(r"std::getline", n.get("callee") or "") and n.get("a") and is_this_field(n["a"][0]):
                e = e or W.ecfg(f)
                # counter = the int field incremented here, directly or through a member function that increments it
                incs = [(c, x) for c, x in this_counter(f)]
                cls_ctrs = sorted({c for g in fns for c, _ in this_counter(g)})
                for x in f.nodes():
                    if x.get("k") == "MCall" and (x.get("obj") is None or strip(x["obj"]).get("k") == "This"):
                        ms = MODSETS.get(x.get("cfull")) or set()
                        for c in cls_ctrs:
                            if ("@" + c) in ms and x.get("i") is not None:
                                incs.append((c, x))
                key = "Scanner::%s/getline" % f.name
                if not incs:
                    undecided(ck, "E7.scanner-line-count", key, "std::getline consumes a line but no increment of a line counter field is visible in %s() or its member callees" % f.name)
                    continue
                w = e.where(n)
                inc_ids = {x["i"] for _, x in incs}
                ok = False
                b0 = w[0]
                el = e.el[b0]
                pos = el.index(w[1]) if w[1] in el else -1
                if any(s in inc_ids for s in el[pos + 1:]):
                    ok = True
                else:
                    marked = {b for b in e.el if any(s in inc_ids for s in e.el[b])}
                    reach = set()
                    for s in e.succ.get(b0, []):
                        if s is not None:
                            reach |= e.reachable(s, avoid=marked)
                    ok = e.exit not in reach and b0 not in reach
                ck.ob("E7.scanner-line-count", key, ok,
                      "every path after std::getline increments %s before the next line is read or the function returns" % incs[0][0] if ok else
                      "a path from std::getline to the next getline/return does not increment %s: reported line numbers drift" % incs[0][0], f.file, n.get("l"))

    # content lines are trimmed and non-empty
    for f in byname.get("read_next_line", []):
        e = W.ecfg(f)
        line = None
        for n in f.nodes():
            if n.get("k") == "Call" and re.match(r"std::getline", n.get("callee") or "") and len(n.get("a", [])) >= 2 and is_this_field(n["a"][1]):
                line = strip(n["a"][1])["n"]
        if line is None:
            ck.incomplete("E7.scanner-nonempty-line", "read_next_line: getline target not recognised")
            continue
        probs = []
        for n in f.nodes():
            if n.get("k") == "Return" and strip(n.get("e")) is not None and strip(n["e"]).get("k") == "Bool" and strip(n["e"])["v"]:
                fs = e.facts_at(n) or set()
                if not find_fact(fs, "<", A="0", B="%s.size()" % line, truth=True):
                    probs.append("line %s: returns true without `!%s.empty()`" % (n.get("l"), line))
        trims = [n for n in f.nodes() if n.get("k") == "MCall" and n.get("n") in ("trim_me",) and is_this_field(n.get("obj")) and strip(n["obj"])["n"] == line]
        trims += [n for n in f.nodes() if n.get("k") in ("OpCall", "Assign") and (n.get("op") == "=") and root_var((n.get("a") or [n.get("lhs")])[0]) == line
                  and any(x.get("k") == "MCall" and x.get("n") == "trim" for x in walk(n))]
        if not trims:
            other = [render(n)[:40] for n in f.nodes() if n.get("k") == "MCall" and root_var(n.get("obj")) == line and not n.get("cconst")
                     and n.get("n") not in ("empty", "size", "reserve")] + suspects(W, e, None, {"@" + line}, anywhere=True)
            if other:
                undecided(ck, "E7.scanner-nonempty-line", "Scanner::read_next_line/%s" % line, "no trim_me()/trim() of the line recognised, but %s may trim it" % other)
                continue
            probs.append("the line is not trimmed before the emptiness test")
        ck.ob("E7.scanner-nonempty-line", "Scanner::read_next_line/%s" % line, not probs, "; ".join(probs) or "returns true only for a trimmed non-empty line", f.file, f.line)
        for g in byname.get("process_content", []):
            ok = False
            for c in g.nodes():
                if c.get("k") == "MCall" and c.get("n") == "content" and len(c.get("a", [])) == 2:
                    ok = is_this_field(c["a"][1]) and strip(c["a"][1])["n"] == line
            ck.ob("E7.scanner-nonempty-line", "Scanner::process_content/sline", ok, "content() receives %s" % line if ok else "content() does not receive the line read by read_next_line()", g.file, g.line)
        for g in byname.get("scan", []):
            eg = W.ecfg(g)
            for c in g.nodes():
                if c.get("k") == "MCall" and c.get("n") == "process_content":
                    fs = eg.facts_at(c) or set()
                    ok = bool(find_fact(fs, "b", A="read_next_line()", truth=True))
                    ck.ob("E7.scanner-nonempty-line", "Scanner::scan/process_content", ok,
                          "process_content() only runs after read_next_line() returned true and the line was not modified since" if ok else
                          "process_content() can run without a freshly read non-empty line", g.file, c.get("l"))


# -------------------------------------------------------------------------------------------------
# E12: writer event stream -> tag tree; reader parser tree; agreement
# -------------------------------------------------------------------------------------------------

def first_targ(s):
    """first template argument of `name<A, B, ...>`"""
    i = s.find("<")
    if i < 0:
        return None
    depth, start = 0, i + 1
    for j in range(i, len(s)):
        ch = s[j]
        if ch == "<":
            depth += 1
        elif ch == ">":
            depth -= 1
            if depth == 0:
                return s[start:j].strip()
        elif ch == "," and depth == 1:
            return s[start:j].strip()
    return None


def flatten_shift(n):
    n = strip(n)
    if n.get("k") == "OpCall" and n.get("op") == "<<" and len(n.get("a", [])) == 2:
        base, ops = flatten_shift(n["a"][0])
        return base, ops + [n["a"][1]]
    return n, []


def str_value(n):
    """literal text of an operand, if it is one"""
    n = strip(n)
    if n is None:
        return None
    if n.get("k") == "Str":
        return n["v"]
    if n.get("k") == "Char":
        return chr(n["v"])
    if n.get("k") in ("Construct", "TempObj") and len(n.get("a", [])) == 1 and (n.get("ccls") or "") in ("FEAT::String", "std::basic_string<char>"):
        return str_value(n["a"][0])
    if n.get("k") == "Ref" and n.get("dk") == "func" and (n.get("qn") or n.get("n") or "").endswith("endl"):
        return "\n"
    return None


class Emitter:
    """linear event stream of everything a writer entry point puts on its stream, callees inlined"""

    def __init__(self, W, ck):
        self.W = W
        self.ck = ck
        self._emits = {}
        self._blank_field = {}

    def emits(self, f, seen=None):
        if f.full in self._emits:
            return self._emits[f.full]
        seen = seen or set()
        if f.full in seen:
            return False
        seen.add(f.full)
        r = False
        for n in f.nodes():
            if n.get("k") == "OpCall" and n.get("op") == "<<":
                base, ops = flatten_shift(n)
                if ("ostream" in (f.ntype(base) or "") or "stringstream" in (f.ntype(base) or "")) and any(str_value(o) is not None for o in ops):
                    r = True
                    break
        if not r:
            for n in f.nodes():
                if n.get("k") in ("Call", "MCall"):
                    for g in self.targets(n):
                        if self.emits(g, seen):
                            r = True
                            break
                if r:
                    break
        self._emits[f.full] = r
        return r

    def targets(self, call):
        g = self.W.fns.get(call.get("cfull"))
        if g is not None:
            return [g]
        cal = call.get("callee") or ""
        m = re.match(r"^FEAT::Geometry::Atlas::ChartBase<(.*)>::write$", cal)
        if m:
            mesh = m.group(1)
            out = []
            for h in self.W.fns.values():
                if h.name == "write" and h.cls and h.cls.startswith("FEAT::Geometry::Atlas::") and not h.cls.startswith("FEAT::Geometry::Atlas::ChartBase") \
                   and first_targ(h.cls) == mesh and len(h.params) == 2:
                    out.append(h)
            return sorted(out, key=lambda h: h.full)
        return []

    def events(self, f, subst=None, cond=0, depth=0, out=None):
        out = [] if out is None else out
        if depth > 12:
            raise featlib.AnalysisBroken("writer inlining too deep at " + f.full)
        self._stmt(f, f.body, subst or {}, cond, depth, out, {})
        return out

    # ---- what is known about a string value ------------------------------------------------------
    SPACE_MUT = ("append", "resize", "push_back", "operator+=", "reserve", "pop_back", "clear", "assign", "insert")

    def _space_arg(self, f, n, subst, depth=0):
        """does the expression consist of blanks only (indentation strings)?  Decided from its definition and every mutation:
        literals of blanks, resize(n, ' ') / resize(n) / append("  ") on a blank string, copies of blank strings"""
        n = strip(n)
        if n is None or depth > 4:
            return False
        v = str_value(n)
        if v is not None:
            return v.strip(" ") == ""
        k = n.get("k")
        if k in ("Construct", "TempObj") and (n.get("ccls") or "") in ("FEAT::String", "std::basic_string<char>"):
            args = n.get("a", [])
            if len(args) == 0:
                return True
            if len(args) == 1:
                return self._space_arg(f, args[0], subst, depth + 1)
            if len(args) == 2 and strip(args[1]).get("k") == "Char":
                return chr(strip(args[1])["v"]) == " "
            return False
        if k == "Ref" and n.get("dk") == "param":
            return bool(subst.get("\0sp:" + n["n"]))
        if k == "Ref" and n.get("dk") == "local":
            init = local_init(f, n["n"])
            if init is None or not self._space_arg(f, init, subst, depth + 1):
                return False
            return self._mutations_blank(f.nodes(), lambda o: strip(o).get("k") == "Ref" and strip(o).get("n") == n["n"], f, subst, depth)
        if is_this_field(n):
            mk_ = (f.cls, n["n"])
            if mk_ in self._blank_field:
                return self._blank_field[mk_]
            self._blank_field[mk_] = False
            self._blank_field[mk_] = self._space_field(f, n, depth)
            return self._blank_field[mk_]
        return False

    def _space_field(self, f, n, depth):
        if True:
            fns = [g for g in self.W.fns.values() if g.cls == f.cls]
            inits_ok = True
            for g in fns:
                for i in (g.d.get("inits") or []):
                    if (i.get("n") or i.get("field")) == n["n"] and i.get("init") is not None and not self._space_arg(g, i["init"], {}, depth + 1):
                        inits_ok = False
            return inits_ok and all(self._mutations_blank(g.nodes(), lambda o: is_this_field(o) and strip(o)["n"] == n["n"], g, {}, depth) for g in fns)
        return False

    def _mutations_blank(self, nodes, is_target, f, subst, depth):
        for x in nodes:
            if x.get("k") == "MCall" and x.get("obj") is not None and is_target(x["obj"]) and not x.get("cconst"):
                nm = x.get("n")
                args = x.get("a", [])
                if nm in ("reserve", "pop_back", "clear") or ACCESSOR_RE.match(nm or ""):
                    continue
                if nm == "resize" and (len(args) == 1 or (len(args) == 2 and strip(args[1]).get("k") == "Char" and chr(strip(args[1])["v"]) == " ")):
                    continue
                if nm in ("append", "operator+=", "push_back", "assign") and len(args) == 1 and \
                   (self._space_arg(f, args[0], subst, depth + 1) or (strip(args[0]).get("k") == "Char" and chr(strip(args[0])["v"]) == " ")):
                    continue
                return False
            if x.get("k") in ("Assign",) and is_target(x["lhs"]) and not self._space_arg(f, x["rhs"], subst, depth + 1):
                return False
            if x.get("k") == "OpCall" and x.get("op") in ("=", "+=") and x.get("a") and is_target(x["a"][0]) and not self._space_arg(f, x["a"][1], subst, depth + 1):
                return False
        return True

    def _lambda_of(self, f, ref):
        t = f.ntype(strip(ref)) or ""
        m = re.search(r"\(lambda at [^:]+:(\d+):\d+\)", t)
        if not m:
            return None
        cands = [g for g in self.W.by_full.get("%s::<lambda@%s>" % (f.full, m.group(1)), []) if g.facts is f.facts]
        return cands[0] if len(cands) == 1 else None

    def _inline(self, f, n, g, args, subst, cond, depth, out):
        sub = {}
        for p, a in zip(g.params, args):
            v = str_value(a)
            if v is None and strip(a).get("k") == "Ref" and strip(a)["n"] in subst:
                v = subst[strip(a)["n"]]
            if v is not None:
                sub[p["n"]] = v
            else:
                # a value handed through: inside the callee the parameter stands for the caller's expression
                sa = strip(a)
                if sa is not None and sa.get("k") == "Ref" and sa.get("dk") == "param" and ("\0val:" + sa["n"]) in subst:
                    sa = subst["\0val:" + sa["n"]]
                if sa is not None:
                    sub["\0val:" + p["n"]] = sa
            if self._space_arg(f, a, subst):
                sub["\0sp:" + p["n"]] = True
        out.append(("enter", g, cond))
        self.events(g, sub, cond, depth + 1, out)
        out.append(("leave", g, cond))

    def _stmt(self, f, n, subst, cond, depth, out, bufs):
        if n is None:
            return
        k = n.get("k")
        if k == "Block":
            for s in n.get("s", []):
                self._stmt(f, s, subst, cond, depth, out, bufs)
        elif k == "If":
            out.append(("branch", "then", cond))
            self._stmt(f, n.get("then"), subst, cond + 1, depth, out, bufs)
            out.append(("branch", "else", cond))
            self._stmt(f, n.get("else"), subst, cond + 1, depth, out, bufs)
            out.append(("branch", "end", cond))
        elif k in ("For", "While", "Do", "ForRange"):
            self._stmt(f, n.get("body"), subst, cond + 1, depth, out, bufs)
        elif k == "OpCall" and n.get("op") == "<<":
            base, ops = flatten_shift(n)
            bt = f.ntype(base) or ""
            if "ostream" not in bt and "stringstream" not in bt:
                return
            target = out
            if strip(base).get("k") == "Ref" and strip(base).get("dk") == "local" and "stringstream" in bt:
                target = bufs.setdefault(strip(base)["n"], [])       # a local string stream: buffered until its str() is emitted
            for o in ops:
                self._operand(f, o, subst, cond, target, bufs)
        elif k == "OpCall" and n.get("op") == "()" and n.get("a") and strip(n["a"][0]).get("k") == "Ref":
            g = self._lambda_of(f, n["a"][0])
            if g is not None and self.emits(g):
                self._inline(f, n, g, n["a"][1:], subst, cond, depth, out)
        elif k in ("Call", "MCall"):
            for g in self.targets(n):
                if not self.emits(g):
                    continue
                self._inline(f, n, g, n.get("a", []), subst, cond, depth, out)
        elif k in ("Try",):
            for c in children(n):
                self._stmt(f, c, subst, cond, depth, out, bufs)

    def _never_reassigned(self, f, name):
        return not any((x.get("k") == "Assign" and root_var(x["lhs"]) == name) or
                       (x.get("k") == "OpCall" and x.get("op") in ("=", "+=") and x.get("a") and root_var(x["a"][0]) == name) or
                       (x.get("k") == "MCall" and root_var(x.get("obj")) == name and not x.get("cconst") and not ACCESSOR_RE.match(x.get("n") or ""))
                       for x in f.nodes())

    def _operand(self, f, o, subst, cond, out, bufs=None, depth=0):
        v = str_value(o)
        s = strip(o)
        # a value assembled by string concatenation (`sindent + "<Mapping dim=\"" + stringify(d) + "\">"`), directly or through a
        # local that is never re-assigned: the pieces are emitted in order
        if v is None and s is not None and depth < 4:
            cat = s
            if s.get("k") == "Ref" and s.get("dk") == "local" and self._never_reassigned(f, s["n"]):
                cat = local_init(f, s["n"])
                while cat is not None and cat.get("k") in ("Construct", "TempObj") and len(cat.get("a", [])) == 1 and str_value(cat) is None:
                    cat = strip(cat["a"][0])
            if cat is not None and cat.get("k") in ("OpCall", "Bin") and cat.get("op") == "+":
                ops = flatten_plus(cat)
                if len(ops) >= 2 and any(str_value(x) is not None for x in ops):
                    for x in ops:
                        self._operand(f, x, subst, cond, out, bufs, depth + 1)
                    return
        if v is None and s is not None and s.get("k") == "Call" and s.get("callee") == "FEAT::stringify" and len(s.get("a", [])) == 1:
            o = s["a"][0]          # stringify(x) puts the text of x
            v = str_value(o)
            s = strip(o)
        if v is None and s.get("k") == "Ref" and s.get("dk") == "param" and s["n"] in subst:
            v = subst[s["n"]]
        blank_param = False
        if v is None and s.get("k") == "Ref" and s.get("dk") == "param" and ("\0val:" + s["n"]) in subst:
            blank_param = bool(subst.get("\0sp:" + s["n"]))
            s = subst["\0val:" + s["n"]]
            v = str_value(s)
        if v is None and s.get("k") == "Ref" and s.get("dk") == "local":
            # a local that names a literal and is never re-assigned (`const char* nl = "\n";`)
            init = local_init(f, s["n"])
            iv = str_value(init) if init is not None else None
            if iv is not None and not any((x.get("k") == "Assign" and root_var(x["lhs"]) == s["n"]) or
                                          (x.get("k") == "OpCall" and x.get("op") in ("=", "+=") and x.get("a") and root_var(x["a"][0]) == s["n"]) or
                                          (x.get("k") == "MCall" and root_var(x.get("obj")) == s["n"] and not x.get("cconst") and not ACCESSOR_RE.match(x.get("n") or ""))
                                          for x in f.nodes()):
                v = iv
        if v is not None:
            out.append(("lit", v, cond, (f, o)))
            return
        if bufs is not None and s.get("k") == "MCall" and s.get("n") == "str" and not s.get("a") and strip(s.get("obj")).get("k") == "Ref" \
           and strip(s["obj"])["n"] in bufs:
            out.extend(bufs[strip(s["obj"])["n"]])
            return
        if s.get("k") == "Cond":
            alts = [str_value(s["then"]), str_value(s["else"])]
            if all(a is not None for a in alts):
                out.append(("alt", alts, cond, (f, o)))
                return
        out.append(("val", s, cond, (f, o), blank_param or self._space_arg(f, s, subst)))


class Tag:
    def __init__(self, name, cond, where):
        self.name = name
        self.cond = cond
        self.attrs = {}       # name -> {"cond": bool, "values": set() or None}
        self.children = []
        self.where = where
        self.vals = []        # value operands emitted inside the open markup (attribute values), in order
        self.closed_seen = False


def merged_children(tag):
    """children of a tag with the siblings of one name merged: the attribute vocabulary of <X> is that of ALL the <X> markups the
    writer emits at this place (an attribute some of them lack is emitted 'only conditionally')"""
    groups, order = {}, []
    for ch in tag.children:
        if ch.name not in groups:
            order.append(ch.name)
        groups.setdefault(ch.name, []).append(ch)
    out = []
    for name in order:
        sibs = groups[name]
        if len(sibs) == 1:
            out.append(sibs[0])
            continue
        m = Tag(name, sibs[0].cond, sibs[0].where)
        m.closed_seen = all(x.closed_seen for x in sibs)
        for x in sibs:
            for a, spec in x.attrs.items():
                tgt = m.attrs.setdefault(a, {"cond": False, "values": set() if spec.get("values") is not None else None})
                tgt["cond"] = tgt["cond"] or bool(spec.get("cond"))
                if spec.get("values") is None:
                    tgt["values"] = None if not tgt["values"] else tgt["values"]
                elif tgt["values"] is not None:
                    tgt["values"] |= set(spec["values"])
            m.vals.extend(x.vals)
            m.children.extend(x.children)
        for a, tgt in m.attrs.items():
            if any(a not in x.attrs for x in sibs):
                tgt["cond"] = True
        out.append(m)
    return out


class TagParser:
    def __init__(self):
        self.root = Tag("", 0, None)
        self.stack = [self.root]
        self.state = "out"
        self.pending = None          # (tag path, 'open'|'close', node) whose '>' has not been followed by a newline yet
        self.problems = []           # structural problems (analysis incomplete)
        self.line_viol = []          # (path, kind, what)
        self.line_unknown = []
        self.frames = []             # open if-statements: {"then": attrs completed there, "else": ..., "cur": branch, "level": outer level}
        self.markups = []            # (path, kind) of every completed markup
        self.cur = None
        self.name = ""
        self.closing = False
        self.selfclose = False
        self.aname = ""
        self.aval = None
        self.acond = 0
        self.ahole = False
        self.aalts = None
        self.last_node = None

    def path(self, extra=None):
        p = [t.name for t in self.stack[1:]]
        if extra:
            p.append(extra)
        return "/".join(p)

    def _finish_markup(self, node):
        if self.closing:
            top = self.stack[-1]
            if top.name != self.name or len(self.stack) < 2:
                self.problems.append("terminator </%s> does not match the open markup <%s>" % (self.name, top.name))
                self.state = "out"
                return
            p = self.path()
            top.closed_seen = True
            self.stack.pop()
            self.markups.append((p, "close"))
            self.pending = (p, "close", node)
        else:
            parent = self.stack[-1]
            parent.children.append(self.cur)
            p = self.path(self.cur.name)
            self.markups.append((p, "open"))
            if not self.selfclose:
                self.stack.append(self.cur)
            self.pending = (p, "open", node)
        self.state = "out"

    def feed(self, ch, cond, node):
        st = self.state
        if st == "out":
            if self.pending is not None:
                if ch != "\n":
                    self.line_viol.append((self.pending[0], self.pending[1], "is followed by %r instead of a line break" % ch, self.pending[2]))
                self.pending = None
            if ch == "<":
                self.state = "name"
                self.name = ""
                self.closing = False
                self.selfclose = False
                self.name_cond = cond       # the markup is as conditional as its '<', not as the text that ends its name
                self.name_node = node
            return
        if st == "name":
            if ch == "/" and self.name == "":
                self.closing = True
                return
            if ch.isalnum():
                self.name += ch
                return
            if not self.closing:
                self.cur = Tag(self.name, getattr(self, "name_cond", cond), getattr(self, "name_node", node))
            self.state = "tag"
            st = "tag"
        if st == "tag":
            if ch in " \t":
                return
            if ch == "/":
                self.selfclose = True
                return
            if ch == ">":
                self._finish_markup(node)
                return
            if ch.isalpha() and not self.closing:
                self.state = "aname"
                self.aname = ch
                self.acond = cond
                return
            self.problems.append("unexpected %r inside markup <%s" % (ch, self.name))
            return
        if st == "aname":
            if ch.isalnum():
                self.aname += ch
            elif ch == "=":
                self.state = "eq"
            elif ch not in " \t":
                self.problems.append("unexpected %r in attribute name of <%s" % (ch, self.name))
            return
        if st == "eq":
            if ch == '"':
                self.state = "value"
                self.aval = ""
                self.ahole = False
                self.aalts = None
            elif ch not in " \t":
                self.problems.append("attribute %s of <%s is not followed by a quoted value" % (self.aname, self.name))
            return
        if st == "value":
            if ch == '"':
                vals = None
                if self.aalts is not None and not self.ahole and self.aval.strip() == "":
                    vals = set(self.aalts)
                elif not self.ahole and self.aalts is None:
                    vals = {self.aval}
                a = self.cur.attrs.setdefault(self.aname, {"cond": self.acond > self.cur.cond, "values": set(), "raw": []})
                a["cond"] = a["cond"] and (self.acond > self.cur.cond)
                if vals is None:
                    a["values"] = None
                elif a["values"] is not None:
                    a["values"] |= vals
                a["raw"].append(self.aval)
                for fr in self.frames:
                    fr[fr["cur"]].add((id(self.cur), self.aname))
                self.state = "tag"
            else:
                self.aval += ch
            return

    def branch(self, what, level):
        if what == "then":
            self.frames.append({"then": set(), "else": set(), "cur": "then", "level": level})
        elif what == "else" and self.frames:
            self.frames[-1]["cur"] = "else"
        elif what == "end" and self.frames:
            fr = self.frames.pop()
            # an attribute written in both branches of an if is written whenever the if itself is reached
            for tid, an in fr["then"] & fr["else"]:
                if self.cur is not None and id(self.cur) == tid and an in self.cur.attrs:
                    self.cur.attrs[an]["cond"] = fr["level"] > self.cur.cond
                for outer in self.frames:
                    outer[outer["cur"]].add((tid, an))

    def lit(self, text, cond, node):
        for ch in text:
            self.feed(ch, cond, node)

    def val(self, cond, node, where=None, blank=False):
        if self.state == "out":
            if self.pending is not None:
                if blank:
                    return          # indentation: consists of blanks only, the next character decides
                self.line_unknown.append((self.pending[0], self.pending[1], "is followed by the value `%s`, whose text is not known" % render(node)[:40], self.pending[2]))
                self.pending = None
        elif self.state == "value":
            self.ahole = True
            self.cur.vals.append((self.aname, node, where))
        else:
            self.problems.append("a computed value `%s` is emitted inside the markup name/attribute list of <%s" % (render(node)[:40], self.name))

    def alt(self, alts, cond, node):
        if self.state == "value":
            self.aalts = (self.aalts or []) + list(alts)
            return
        for a in alts:
            if a:
                self.lit(a, cond + 1, node)

    def finish(self):
        if self.pending is not None:
            self.line_viol.append((self.pending[0], self.pending[1], "is the last thing written: the markup is not terminated by a line break", self.pending[2]))
            self.pending = None
        if len(self.stack) != 1:
            self.problems.append("markup <%s> is never closed" % self.stack[-1].name)
        if self.state != "out":
            self.problems.append("stream ends inside a markup")


def writer_tree(W, ck, entry):
    em = Emitter(W, ck)
    evs = em.events(entry)
    tp = TagParser()
    fstack = [entry]
    for ev in evs:
        if ev[0] == "lit":
            tp.lit(ev[1], ev[2], ev[3])
        elif ev[0] == "val":
            tp.val(ev[2], ev[1], ev[3], ev[4] if len(ev) > 4 else False)
        elif ev[0] == "alt":
            tp.alt(ev[1], ev[2], ev[3])
        elif ev[0] == "branch":
            tp.branch(ev[1], ev[2])
        elif ev[0] == "enter":
            fstack.append(ev[1])
        elif ev[0] == "leave":
            fstack.pop()       # a pending markup end is carried to the caller: its next character must be the line break
    tp.finish()
    return tp


def name_tags(fs, name_param):
    """tag names X with the must-fact `name == "X"` in fs"""
    out = set()
    for f in fs or ():
        if f[0] == "==" and f[3] and f[2] is not None:
            for a_, b_ in ((f[1], f[2]), (f[2], f[1])):
                if a_ == name_param and len(b_) >= 2 and b_[0] == '"' and b_[-1] == '"':
                    out.add(b_[1:-1])
    return out


def helper_constructions(W, g, depth=0):
    """classes of the child parsers a member helper constructs with std::make_shared (own helpers followed)"""
    out = []
    for c in g.nodes():
        if c.get("k") == "Call" and c.get("callee") == "std::make_shared":
            out.append(first_targ(c.get("cfull") or ""))
        elif c.get("k") == "MCall" and (c.get("obj") is None or strip(c["obj"]).get("k") == "This") and depth < 2:
            h = W.resolve(c, g)
            if h is not None and h.body is not None and h is not g:
                out += helper_constructions(W, h, depth + 1)
    return out


def reader_children(W, pc_by_cls, fn, name_param=None, depth=0):
    """{tag name: parser class string} accepted by a markup() body (delegations followed).  A child parser is accepted for tag X
    if it is constructed (std::make_shared) where `name == "X"` is a must-fact - whatever the spelling of the dispatch
    (if / else-if chain, negated test with early return, nested ifs).  A construction that is not tied to a tag name is kept
    under the key '?' (dispatch not understood: the caller must not conclude that a tag is rejected)."""
    out = {}
    if name_param is None:
        name_param = fn.params[2]["n"] if len(fn.params) >= 3 else None
    if fn.cfg is not None and name_param is not None:
        e = W.ecfg(fn)
        for c in fn.nodes():
            if c.get("k") == "Call" and c.get("callee") == "std::make_shared":
                tags = name_tags(e.facts_at(c), name_param)
                cls = first_targ(c.get("cfull") or "")
                if tags:
                    for t in tags:
                        # several constructions under one tag (real parser / Xml::DummyParser when the caller is not interested):
                        # the first real parser class in source order decides, as the vocabulary is matched against it
                        if t not in out or (out[t] or "").startswith("FEAT::Xml::DummyParser"):
                            out[t] = cls
                elif e.facts_at(c) is not None:
                    out.setdefault("?", cls)
    # a member helper called where `name == "X"` holds constructs the child parser for X (`return _create_extrude<Circle, ...>();`)
    if fn.cfg is not None and name_param is not None and depth < 3:
        e = W.ecfg(fn)
        for c in fn.nodes():
            if c.get("k") == "MCall" and (c.get("obj") is None or strip(c["obj"]).get("k") == "This"):
                g = W.resolve(c, fn)
                if g is None or g.body is None or g is fn or any(strip(a) is not None and strip(a).get("k") == "Ref" and strip(a).get("n") == name_param for a in c.get("a", [])):
                    continue
                made = helper_constructions(W, g)
                if not made:
                    continue
                tags = name_tags(e.facts_at(c), name_param)
                for t in tags:
                    if t not in out or (out[t] or "").startswith("FEAT::Xml::DummyParser"):
                        out[t] = made[0]
                if not tags and e.facts_at(c) is not None:
                    out.setdefault("?", made[0])
    # delegation: a call that receives the name parameter
    for n in fn.nodes():
        if n.get("k") in ("Call", "MCall") and n.get("callee") != "std::make_shared":
            args = n.get("a", [])
            for i, a in enumerate(args):
                s = strip(a)
                if s.get("k") == "Ref" and s.get("n") == name_param:
                    g = W.fns.get(n.get("cfull"))
                    if g is not None and depth < 3 and i < len(g.params):
                        out.update(reader_children(W, pc_by_cls, g, g.params[i]["n"], depth + 1))
    return out


def root_name(fn):
    """tag name the root parser insists on in create(): `name != "X"` -> throw"""
    for n in fn.nodes():
        if n.get("k") == "If":
            c = cmp_parts(n["c"]) if strip(n["c"]).get("k") in ("OpCall", "Bin") else None
            if c and c[0] == "!=":
                for x, y in ((c[1], c[2]), (c[2], c[1])):
                    if strip(x).get("k") == "Ref" and strip(x).get("dk") == "param" and str_value(y) is not None:
                        return str_value(y)
    return None


def attr_value_literals(fn, attrs_param):
    """{attribute: set of string literals its value is compared with in create()} (only attributes whose value is
    compared with literals at all)"""
    # variables (locals / fields / iterators) bound to attrs.find(K); a variable may be re-bound (`it = attrs.find(..)`),
    # the binding that textually precedes a comparison most closely counts (pre-order ids follow the source order)
    bind = []
    for n in fn.nodes():
        tgt, init = None, None
        if n.get("k") == "Var" and n.get("init") is not None:
            tgt, init = n["n"], n["init"]
        elif n.get("k") == "Assign" and n.get("op") == "=":
            tgt, init = norm(n["lhs"]), n["rhs"]
        elif n.get("k") == "OpCall" and n.get("op") == "=" and len(n.get("a", [])) == 2:
            tgt, init = norm(n["a"][0]), n["a"][1]
        if tgt is None:
            continue
        for x in walk(init):
            if x.get("k") == "MCall" and x.get("n") == "find" and strip(x.get("obj")).get("k") == "Ref" and strip(x["obj"]).get("n") == attrs_param and x.get("a"):
                k = str_value(x["a"][0])
                if k is not None:
                    bind.append((x.get("i", 0), tgt, k))
    out = {}
    for n in fn.nodes():
        c = cmp_parts(n) if n.get("k") in ("OpCall", "Bin") else None
        if not c or c[0] not in ("==", "!="):
            continue
        for x, y in ((c[1], c[2]), (c[2], c[1])):
            lit = str_value(y)
            if lit is None:
                continue
            r = root_var(x)
            nx = norm(x)
            K, best = None, -1
            for i, t, k in bind:
                if (nx == t or nx == t + ".second" or r == t) and best < i < n.get("i", 1 << 30):
                    K, best = k, i
            for z in walk(x):
                if z.get("k") == "MCall" and z.get("n") == "find" and z.get("a") and str_value(z["a"][0]) is not None \
                   and strip(z.get("obj")).get("k") == "Ref" and strip(z["obj"]).get("n") == attrs_param:
                    K = str_value(z["a"][0])
            if K is not None:
                out.setdefault(K, set()).add(lit)
                CMP_NODES.setdefault(id(fn), []).append((n, K, lit, c[0]))
    return out


CMP_NODES = {}


def reader_rejects_value(W, fn, K, v):
    """does every path of fn that is consistent with `value of attribute K == v` (only the comparisons of that value with
    literals are decided, every other branch stays open) end in a throw?"""
    e = W.ecfg(fn)
    cut = set()
    for b in e.el:
        br = e.branch(b)
        if br is None:
            continue
        leaf, t, fl = br
        y, neg = strip(leaf), False
        while y is not None and y.get("k") == "Un" and y.get("op") == "!":
            y, neg = strip(y["e"]), not neg
        for node, K2, lit, op in CMP_NODES.get(id(fn), []):
            if K2 == K and y is not None and (y is node or (y.get("i") is not None and y.get("i") == node.get("i") and y.get("k") == node.get("k"))):
                truth = (v == lit) if op == "==" else (v != lit)
                if neg:
                    truth = not truth
                cut.add((b, fl if truth else t))
    reach = e.reachable(cut_edges=cut)
    return e.exit not in reach or not any(b in reach and b not in e.throws and e.exit in e.succ.get(b, []) and (b, e.exit) not in cut for b in reach)



# composite attribute values -------------------------------------------------------------------------

def flatten_plus(n):
    n = strip(n)
    if n.get("k") == "OpCall" and n.get("op") == "+" and len(n.get("a", [])) == 2:
        return flatten_plus(n["a"][0]) + flatten_plus(n["a"][1])
    if n.get("k") == "Bin" and n.get("op") == "+" and ("String" in str(n.get("t", "")) or False):
        return flatten_plus(n["lhs"]) + flatten_plus(n["rhs"])
    return [n]


def literal_of_call(W, caller, n, depth=0):
    """string literal a call always returns (single `return "lit";`), resolved by declaration"""
    n = strip(n)
    if n is None or n.get("k") not in ("Call", "MCall") or depth > 3:
        return None
    g = W.resolve(n, caller)
    if g is None:
        return None
    rets = [x for x in g.nodes() if x.get("k") == "Return"]
    if len(rets) != 1:
        return None
    v = str_value(rets[0].get("e"))
    if v is None:
        x = strip(rets[0].get("e"))
        while x is not None and x.get("k") in ("Construct", "TempObj") and len(x.get("a", [])) == 1:
            x = strip(x["a"][0])
        v = str_value(x) if x is not None else None
    return v


def compose_value(W, caller, node):
    """pieces [("lit", text) | ("val", expr)] of a value the writer builds by string concatenation in a helper
    (`return String("conformal:") + name() + ":" + stringify(d) + ...`), or None"""
    node = strip(node)
    if caller is None or node is None or node.get("k") not in ("Call", "MCall"):
        return None
    g = W.resolve(node, caller)
    if g is None:
        return None
    rets = [x for x in g.nodes() if x.get("k") == "Return"]
    if len(rets) != 1:
        return None
    ops = flatten_plus(rets[0].get("e"))
    if len(ops) < 2:
        return None
    pieces = []
    for o in ops:
        v = str_value(o)
        x = strip(o)
        while v is None and x is not None and x.get("k") in ("Construct", "TempObj") and len(x.get("a", [])) == 1:
            x = strip(x["a"][0])
            v = str_value(x)
        if v is None:
            v = literal_of_call(W, g, o)
        if v is not None:
            pieces.append(("lit", v))
        elif strip(o).get("k") == "Call" and strip(o).get("callee") == "FEAT::stringify" and strip(o).get("a"):
            pieces.append(("val", strip(o)["a"][0]))
        else:
            pieces.append(("val", strip(o)))
    return pieces


def split_fields(pieces, sep):
    """fields (each a list of pieces) of a composed value split at the separator literal"""
    fields = [[]]
    for kind, v in pieces:
        if kind == "val":
            fields[-1].append((kind, v))
            continue
        parts = v.split(sep)
        for j, part in enumerate(parts):
            if j > 0:
                fields.append([])
            if part:
                fields[-1].append(("lit", part))
    return fields


def quantity(node):
    """(integer value, role) of a constant expression; role 'shape' if it is Shape::<...>::dimension by declaration"""
    try:
        val = evalnode(node, {})
    except Unknown:
        val = None
    role = None
    for x in walk(node):
        if x.get("k") == "Ref" and re.match(r"^FEAT::Shape::\w+<.*>::dimension$", x.get("qn") or ""):
            role = "shape"
    return val, role


def trace_attr(f, expr, depth=0):
    """attribute name K if expr is (derived from) attrs.find(K)->second, following local/field bindings (the binding that
    textually precedes the use most closely counts: `it` may be re-declared per attribute)"""
    for z in walk(expr):
        if z.get("k") == "MCall" and z.get("n") == "find" and z.get("a") and str_value(z["a"][0]) is not None:
            return str_value(z["a"][0])
    if depth > 3:
        return None
    r = root_var(expr)
    if r is None:
        return None
    pos = min([x.get("i") for x in walk(expr) if x.get("i") is not None] or [1 << 30])
    best, best_init = -1, None
    for n in f.nodes():
        tgt, init = None, None
        if n.get("k") == "Var" and n.get("init") is not None:
            tgt, init = n["n"], n["init"]
        elif n.get("k") == "OpCall" and n.get("op") == "=" and len(n.get("a", [])) == 2:
            tgt, init = root_var(n["a"][0]), n["a"][1]
        elif n.get("k") == "Assign" and n.get("op") == "=":
            tgt, init = root_var(n["lhs"]), n["rhs"]
        if tgt == r and init is not None and root_var(init) != r:
            i0 = min([x.get("i") for x in walk(init) if x.get("i") is not None] or [-1])
            if best < i0 < pos:
                best, best_init = i0, init
    if best_init is not None:
        return trace_attr(f, best_init, depth + 1)
    return None


def token_table(W, f, attr, cfs):
    """how reader function f takes attribute `attr` apart: separator, number of tokens, and per token index the literals
    it is compared with / the constant its parsed value must equal / the getter that publishes it"""
    for n in f.nodes():
        if not (n.get("k") == "Var" and n.get("init") is not None):
            continue
        init = strip(n["init"])
        if not (init.get("k") == "MCall" and init.get("callee") in SPLITS):
            continue
        if init.get("callee") == "FEAT::String::split_by_string" and not init.get("a"):
            continue
        if trace_attr(f, init.get("obj")) != attr:
            continue
        D = n["n"]
        ws = init.get("callee") == "FEAT::String::split_by_whitespaces"
        sep = " " if ws else str_value(init["a"][0])
        x = None if ws else strip(init["a"][0])
        while sep is None and x is not None and x.get("k") in ("Construct", "TempObj") and len(x.get("a", [])) == 1:
            x = strip(x["a"][0])
            sep = str_value(x)
        tt = {"sep": sep, "count": None, "tok": {}, "deque": D}

        def tok_index(x):
            x = strip(x)
            if x is not None and x.get("k") == "MCall" and x.get("n") in ("at", "operator[]") and strip(x.get("obj")).get("k") == "Ref" \
               and strip(x["obj"])["n"] == D and x.get("a") and strip(x["a"][0]).get("k") == "Int":
                return int(strip(x["a"][0])["v"])
            return None
        targets = {}
        for m in f.nodes():
            c = cmp_parts(m) if m.get("k") in ("Bin", "OpCall") else None
            if c:
                for a, b in ((c[1], c[2]), (c[2], c[1])):
                    sa = strip(a)
                    if sa.get("k") == "MCall" and sa.get("n") == "size" and strip(sa.get("obj")).get("k") == "Ref" and strip(sa["obj"])["n"] == D and c[0] in ("!=", "=="):
                        try:
                            tt["count"] = evalnode(b, {})
                        except Unknown:
                            pass
                    k = tok_index(a)
                    if k is not None and c[0] in ("==", "!="):
                        lit = str_value(b)
                        sb = strip(b)
                        if lit is None and sb.get("k") == "Ref" and sb.get("dk") == "local":
                            li = local_init(f, sb["n"])
                            lit = str_value(li) if li is not None else None
                            if lit is None and li is not None:
                                lit = literal_of_call(W, f, li)
                        if lit is not None:
                            tt["tok"].setdefault(k, {}).setdefault("lits", set()).add(lit)
            if m.get("k") == "MCall" and m.get("callee") == "FEAT::String::parse" and m.get("a"):
                k = tok_index(m.get("obj"))
                if k is not None:
                    tt["tok"].setdefault(k, {})["parsed"] = m["a"][0]
                    targets[norm(m["a"][0])] = k
        for m in f.nodes():
            c = cmp_parts(m) if m.get("k") in ("Bin", "OpCall") else None
            if c and c[0] in ("==", "!="):
                for a, b in ((c[1], c[2]), (c[2], c[1])):
                    if norm(a) in targets:
                        val, role = quantity(b)
                        if val is not None:
                            t = tt["tok"][targets[norm(a)]]
                            t["expect"] = val
                            t["erole"] = role
                            t["enode"] = b
        # getter roles of parse targets that are fields
        for k, t in tt["tok"].items():
            p = t.get("parsed")
            if p is not None and is_this_field(p):
                fld = strip(p)["n"]
                for g in cfs:
                    rets = [x for x in g.nodes() if x.get("k") == "Return"]
                    if len(rets) == 1 and not g.params and is_this_field(rets[0].get("e")) and strip(rets[0]["e"])["n"] == fld:
                        t["getter"] = g.name
        return tt
    return None


def compare_composite(comp, site, mesh, pieces, tt, rf, wf, vnode):
    rname = "%s::%s" % (short(rf.cls), rf.name)

    def rec(k):
        return comp.setdefault((site, k), {"probs": [], "ok": [], "fn": wf, "node": vnode})
    if not tt["sep"]:
        rec("count")["probs"].append("%s: separator of the split not a literal" % rname)
        return
    fields = split_fields(pieces, tt["sep"])
    r = rec("count")
    if tt["count"] is not None and tt["count"] != len(fields):
        r["probs"].append("writer composes %d '%s'-separated fields, %s requires %d" % (len(fields), tt["sep"], rname, tt["count"]))
    else:
        r["ok"].append("%d fields" % len(fields))
    for k, fld in enumerate(fields):
        r = rec(k)
        t = tt["tok"].get(k, {})
        if len(fld) != 1:
            r["probs"].append("field %d of the writer's value is not a single literal or value" % k)
            continue
        kind, v = fld[0]
        if kind == "lit":
            if "lits" in t and v not in t["lits"]:
                r["probs"].append("[%s] writer puts \"%s\" into field %d, %s accepts only %s there" % (mesh, v, k, rname, sorted(t["lits"])))
            elif "parsed" in t and not re.fullmatch(r"-?\d+", v):
                r["probs"].append("[%s] writer puts the text \"%s\" into field %d, %s parses that token as a number" % (mesh, v, k, rname))
            else:
                r["ok"].append("%s: \"%s\"" % (rname, v))
            continue
        val, role = quantity(v)
        if "lits" in t and "parsed" not in t:
            r["probs"].append("[%s] writer puts the number `%s` into field %d, %s compares that token with %s" % (mesh, render(v)[:30], k, rname, sorted(t["lits"])))
            continue
        if "expect" in t and val is not None and t["expect"] != val:
            r["probs"].append("[%s] writer puts `%s` = %d into field %d, but %s requires token %d == `%s` = %d: the reader rejects the writer's own output" % (
                mesh, render(v)[:40], val, k, rname, k, render(t["enode"])[:40], t["expect"]))
            continue
        if "expect" in t and role and t.get("erole") and role != t["erole"]:
            r["probs"].append("[%s] field %d carries the %s dimension, token %d is compared with another quantity" % (mesh, k, role, k))
            continue
        g = t.get("getter")
        if g and role == "shape" and "shape" not in g:
            r["probs"].append("[%s] writer puts the shape dimension `%s` into field %d, %s publishes token %d as %s()" % (mesh, render(v)[:40], k, rname, k, g))
            continue
        if g and role is None and val is not None and "shape" in g:
            sd = re.search(r"(?:Simplex|Hypercube)<(\d)>", mesh or "")
            if sd and int(sd.group(1)) != val:
                r["probs"].append("[%s] writer puts %d into field %d, %s publishes token %d as %s() (shape dimension is %s)" % (mesh, val, k, rname, k, g, sd.group(1)))
                continue
        r["ok"].append("%s: token %d %s" % (rname, k, ("== %s" % t["expect"]) if "expect" in t else ("-> %s()" % g if g else "")))


def rule_vocabulary(ck, W, facts, pcs):
    pc_by_cls = {pc.cls: pc for pc in pcs}
    entries = [f for f in facts.functions if f.tk != "pattern" and f.cls == "FEAT::Geometry::MeshFileWriter" and f.name == "write" and len(f.params) == 4]
    if not entries:
        ck.incomplete("E12.vocabulary", "no instantiation of MeshFileWriter::write found")
        return
    voc = {}      # tag path -> list of problems
    lines = {}    # (path, kind) -> problems
    info = {}
    lines_unk = {}
    voc_unk = {}
    comp = {}     # (attribute site, field) -> {"probs", "fn", "node"}
    cfs_all = class_functions(facts)
    nonsquare = set()
    for entry in sorted(entries, key=lambda f: f.full):
        mesh = None
        m = re.search(r"RootMeshNode<(.*)> \*$", entry.type(entry.params[0]["t"]) or "")
        if m:
            mesh = m.group(1).replace("const ", "").strip()
        # reader root for the same mesh type
        rpc = None
        for pc in pcs:
            if pc.short == "MeshNodeParser" and first_targ(pc.cls) == mesh:
                rpc = pc
        if rpc is None:
            ck.incomplete("E12.vocabulary", "no MeshNodeParser instantiation for %s" % mesh)
            continue
        try:
            tp = writer_tree(W, ck, entry)
        except featlib.AnalysisBroken as ex:
            ck.incomplete("E12.vocabulary", str(ex))
            continue
        for p in tp.problems:
            ck.incomplete("E12.vocabulary", "%s: %s" % (entry.full[:80], p))
        for path, kind in tp.markups:
            lines.setdefault((path, kind), [])
        for path, kind, what, node in tp.line_unknown:
            lines_unk.setdefault((path, kind), []).append(what)
            info.setdefault(("L", path, kind), node)
        for path, kind, what, node in tp.line_viol:
            lines.setdefault((path, kind), []).append("the %s markup of <%s> %s (the scanner reads one markup per line)" % (
                "opening" if kind == "open" else "closing", path.rsplit("/", 1)[-1], what))
            info.setdefault(("L", path, kind), node)

        def match(tag, path, pcls, accepted_by_parent):
            probs = voc.setdefault(path, [])
            info.setdefault(path, tag.where)
            if not accepted_by_parent:
                return
            pc = pc_by_cls.get(pcls)
            if pc is None:
                if pcls is not None and pcls.startswith("FEAT::Xml::DummyParser"):
                    return
                ck.incomplete("E12.vocabulary", "<%s>: reader class %s has no analysed instantiation" % (path, pcls))
                return
            table, checks = attribs_table(pc.m["attribs"])
            if table is None:
                ck.incomplete("E12.vocabulary", "%s::attribs not understood" % pc.cls)
                return
            if checks:
                for a in tag.attrs:
                    if a not in table:
                        probs.append("writer emits attribute '%s' which %s::attribs() does not register: the scanner throws 'Unexpected attribute'" % (a, pc.short))
            for a, mand in table.items():
                if mand and checks and (a not in tag.attrs or tag.attrs[a]["cond"]):
                    probs.append("%s requires attribute '%s' but the writer %s" % (pc.short, a, "emits it only conditionally" if a in tag.attrs else "never emits it"))
            create = pc.m["create"]
            if len(create.params) >= 4:
                lits = attr_value_literals(create, create.params[3]["n"])
                for a, spec in tag.attrs.items():
                    if a in lits and spec["values"]:
                        for v in sorted(spec["values"]):
                            if v.strip() not in lits[a] and reader_rejects_value(W, create, a, v.strip()):
                                probs.append("writer emits %s=\"%s\" but %s::create only knows the values %s and rejects everything else" % (a, v, pc.short, sorted(lits[a])))
            # composite attribute values ("conformal:<shape>:<d>:<w>"): field k of the writer's composition <-> token k of the reader
            for v in tag.vals:
                aname, vnode, where = v
                wf = where[0] if isinstance(where, tuple) else None
                comp_ = compose_value(W, wf, vnode)
                if comp_ is None:
                    continue
                readers = [create] + [g for g in cfs_all.get(pc.cls, []) if g is not create and g.cfg is not None]
                if len(path.split("/")) == 1:
                    readers += facts.find(qn_re=r"MeshFileReader::read_root_markup$")
                done = False
                for rf in readers:
                    tt = token_table(W, rf, aname, cfs_all.get(rf.cls, [rf]))
                    if tt is None:
                        continue
                    done = True
                    compare_composite(comp, "<%s>@%s" % (path, aname), mesh, comp_, tt, rf, wf, vnode)
                if not done:
                    ck.incomplete("E12.vocabulary", "<%s>@%s: the writer composes this attribute from several fields but no reader function that splits it was recognised" % (path, aname))
            kids = reader_children(W, pc_by_cls, pc.m["markup"])
            seen = set()
            for ch in merged_children(tag):
                if ch.name in seen:
                    continue
                seen.add(ch.name)
                cp = path + "/" + ch.name
                voc.setdefault(cp, [])
                if ch.name not in kids:
                    mk = pc.m["markup"]
                    nonnull = [x for x in mk.nodes() if x.get("k") == "Return" and not any(y.get("k") == "Null" for y in walk(x))]
                    if "?" in kids:
                        voc_unk.setdefault(cp, []).append("%s::markup() constructs a child parser (%s) that is not tied to a `name == \"...\"` test: the dispatch is not understood" % (pc.short, short(kids["?"] or "?")))
                    elif not kids and nonnull:
                        voc_unk.setdefault(cp, []).append("%s::markup() returns child parsers but no `name == \"...\"` dispatch was recognised" % pc.short)
                    else:
                        voc[cp].append("writer emits <%s> inside <%s> but %s::markup() accepts only %s" % (ch.name, tag.name, pc.short, sorted(k_ for k_ in kids if k_ != "?")))
                    match(ch, cp, None, False)
                else:
                    match(ch, cp, kids[ch.name], True)

        md = re.search(r"(?:Simplex|Hypercube)<(\d)>, (\d)", mesh or "")
        if md and md.group(1) != md.group(2):
            nonsquare.add(mesh)
        for top in tp.root.children:
            rn = root_name(rpc.m["create"])
            path = top.name
            voc.setdefault(path, [])
            if rn != top.name:
                voc[path].append("writer's root markup is <%s> but %s::create insists on <%s>" % (top.name, rpc.short, rn))
                continue
            match(top, path, rpc.cls, True)
    def loc(w):
        if isinstance(w, tuple) and w[0] is not None:
            return w[0].file, strip(w[1]).get("l") if isinstance(w[1], dict) else None
        return None, None

    if comp and not nonsquare:
        ck.incomplete("E12.vocabulary", "no mesh instantiation with shape dimension != world dimension: the order of the dimension fields of "
                      "composite attribute values cannot be decided")
    for (site, k), rec in sorted(comp.items(), key=lambda kv: (kv[0][0], str(kv[0][1]))):
        ck.ob("E12.vocabulary", "%s#%s" % (site, k), not rec["probs"],
              "; ".join(sorted(set(rec["probs"]))) or "writer field and reader token carry the same quantity (%s)" % "; ".join(sorted(set(rec.get("ok", [])))[:3]),
              rec["fn"].file if rec.get("fn") is not None else None, strip(rec["node"]).get("l") if isinstance(rec.get("node"), dict) else None)

    for path, probs in sorted(voc.items()):
        if not probs and voc_unk.get(path):
            undecided(ck, "E12.vocabulary", "<%s>" % path, "; ".join(sorted(set(voc_unk[path]))))
            continue
        fl, ln = loc(info.get(path))
        ck.ob("E12.vocabulary", "<%s>" % path, not probs, "; ".join(sorted(set(probs))) or "tag, attributes and literal attribute values are accepted by the reader",
              fl, ln)
    for (path, kind), probs in sorted(lines.items()):
        if not probs and lines_unk.get((path, kind)):
            undecided(ck, "E12.line-per-markup", "<%s>:%s" % (path, kind), "; ".join(sorted(set(lines_unk[(path, kind)]))))
            continue
        fl, ln = loc(info.get(("L", path, kind)) or info.get(path))
        ck.ob("E12.line-per-markup", "<%s>:%s" % (path, kind), not probs, "; ".join(sorted(set(probs))) or "followed by a line break", fl, ln)


# -------------------------------------------------------------------------------------------------
# E12.dim-binding: <Topology dim=d> / <Mapping dim=d>  <->  which index/target set
# -------------------------------------------------------------------------------------------------

SET_ACCESSORS = ("get_index_set", "get_target_set")


def targs_of(cfull):
    i = (cfull or "").rfind("<")
    return cfull[i:] if i >= 0 and cfull.endswith(">") else ""


def holder_shape(ccls):
    return first_targ(ccls or "") or "?"


def rule_dim_binding(ck, W, facts):
    em = Emitter(W, ck)
    wmap, rmap = {}, {}
    wloc, rloc = {}, {}
    for f in facts.functions:
        if f.tk == "pattern" or f.cfg is None:
            continue
        accs = [n for n in f.nodes() if n.get("k") == "MCall" and n.get("n") in SET_ACCESSORS and re.match(r"FEAT::Geometry::(IndexSetHolder|TargetSetHolder)<", n.get("ccls") or "")]
        if not accs:
            continue
        if re.search(r"mesh_file_writer\.hpp$", f.file):
            # own emissions only (and those of helpers of the same class that emit for it without touching a set themselves)
            evs = []
            saved = em.targets

            def own_helpers(call, f=f):
                g = W.fns.get(call.get("cfull"))
                if g is None or g is f or g.name == f.name or (g.cls != f.cls and (g.cls or not re.search(r"mesh_file_writer\.hpp$", g.file or ""))):
                    return []          # (helpers of the same class, and free helper functions of the writer header: `write_target_set(os, set, dim, ..)`)
                if any(x.get("k") == "MCall" and x.get("n") in SET_ACCESSORS for x in g.nodes()):
                    return []
                return [g]
            em.targets = own_helpers
            try:
                em.events(f, out=evs)
            finally:
                em.targets = saved
            tp = TagParser()
            for ev in evs:
                if ev[0] == "lit":
                    tp.lit(ev[1], ev[2], ev[3])
                elif ev[0] == "val":
                    tp.val(ev[2], ev[1], ev[3], ev[4] if len(ev) > 4 else False)
                elif ev[0] == "alt":
                    tp.alt(ev[1], ev[2], ev[3])
            for tag in tp.root.children:
                if "dim" not in tag.attrs:
                    continue
                dv = None
                if tag.attrs["dim"]["values"]:
                    vs = sorted(tag.attrs["dim"]["values"])
                    dv = vs[0].strip() if len(vs) == 1 else None
                else:
                    nodes = [v[1] for v in tag.vals if v[0] == "dim"]
                    if len(nodes) == 1:
                        try:
                            dv = str(evalnode(nodes[0], {}))      # template constants are folded
                        except Unknown:
                            dv = None
                tset = sorted({(a.get("n"), targs_of(a.get("cfull"))) for a in accs})
                shape = holder_shape(accs[0].get("ccls"))
                if dv is None or len(tset) != 1:
                    ck.incomplete("E12.dim-binding", "%s: dim value / accessed set of <%s> not constant (%s, %s)" % (f.full[:90], tag.name, dv, tset))
                    continue
                wmap[(tag.name, shape, str(dv))] = tset[0]
                wloc[(tag.name, shape, str(dv))] = (f, tag.where)
        elif re.search(r"mesh_file_reader\.hpp$", f.file):
            for a in accs:
                if a.get("cconst"):
                    continue          # the const overload cannot fill the set: a validator of parsed data (MappCheckHelper), not the reader of a <... dim=> block
                par = W.ecfg(f).parents()
                call = par.get(id(a))
                while call is not None and call.get("k") == "Cast":
                    call = par.get(id(call))
                if call is None or call.get("k") != "MCall":
                    continue
                ints = [strip(x)["v"] for x in call.get("a", []) if strip(x).get("k") == "Int"]
                # guarding condition `d == dim`
                dv = None
                p = par.get(id(call))
                while p is not None and p.get("k") not in ("If",):
                    p = par.get(id(p))
                if p is not None and strip(p["c"]).get("k") == "Bin" and strip(p["c"])["op"] == "==":
                    c = strip(p["c"])
                    for x, y in ((c["lhs"], c["rhs"]), (c["rhs"], c["lhs"])):
                        if strip(x).get("k") == "Int" and strip(y).get("k") == "Ref" and strip(y).get("dk") == "param":
                            dv = strip(x)["v"]
                elif p is None and len(ints) == 1:
                    dv = ints[0]
                kind = "Topology" if a.get("n") == "get_index_set" else "Mapping"
                shape = holder_shape(a.get("ccls"))
                if dv is None:
                    ck.incomplete("E12.dim-binding", "%s: cannot tell for which dim value %s is selected" % (f.full[:90], a.get("cfull")))
                    continue
                key = (kind, shape, str(dv))
                val = (a.get("n"), targs_of(a.get("cfull")))
                if len(ints) == 1 and ints[0] != dv:
                    val = (val[0], val[1] + " recorded as dimension %s" % ints[0])
                rmap[key] = val
                rloc[key] = (f, a)
    for key in sorted(set(wmap) | set(rmap)):
        kind, shape, dv = key
        k = "%s/%s/dim=%s" % (kind, shape.replace("FEAT::", ""), dv)
        if key in wmap and key in rmap:
            ok = wmap[key] == rmap[key]
            f, _ = wloc[key]
            ck.ob("E12.dim-binding", k, ok, "writer stores %s%s under dim=%s, reader fills %s%s" % (wmap[key][0], wmap[key][1], dv, rmap[key][0], rmap[key][1]), f.file, f.line)
        elif key in wmap and not any(rk[0] == kind and rk[1] == shape for rk in rmap):
            undecided(ck, "E12.dim-binding", k, "no reader function selecting a set for <%s> of %s was recognised" % (kind, shape))
        elif key in wmap:
            f, _ = wloc[key]
            ck.ob("E12.dim-binding", k, False, "writer emits <%s dim=\"%s\"> for %s but the reader has no set for this value" % (kind, dv, shape), f.file, f.line)
        # reader-only keys: dimensions the writer never emits are not an error of the round trip


# -------------------------------------------------------------------------------------------------
# E12.dimension-recursion: the per-dimension writer helpers visit every dimension
# -------------------------------------------------------------------------------------------------

def rule_dimension_recursion(ck, W, facts):
    seen = {}
    em = Emitter(W, ck)
    for f in facts.functions:
        if f.tk == "pattern" or f.cfg is None or not f.cls or not re.search(r"mesh_file_writer\.hpp$", f.file):
            continue
        base = strip_targs(f.cls)
        rec = [n for n in f.nodes() if n.get("k") in ("Call", "MCall") and (n.get("callee") or "").rsplit("::", 1)[-1] == f.name
               and n.get("ccls") and strip_targs(n["ccls"]) == base and n["ccls"] != f.cls]
        if not rec:
            continue
        key = "%s::%s" % (short(f.cls) + (re.search(r"<.*>$", f.cls).group(0).replace("FEAT::", "") if re.search(r"<.*>$", f.cls) else ""), f.name)
        ids = {n["i"] for n in rec if "i" in n}
        ok, bad = f.cfg.must_pass(lambda n: n.get("i") in ids)
        detail = "the recursion into %s is reached on every path" % short(rec[0]["ccls"])
        tgt = [g for n in rec for g in em.targets(n)]
        if not ok and tgt and not any(em.emits(g) for g in tgt):
            ok, detail = True, "the recursion ends here: %s::%s emits nothing" % (short(rec[0]["ccls"]), f.name)
        if not ok:
            pth = f.cfg.path_to(bad[0], avoid={b for b in f.cfg.blocks if any(i in ids for i in f.cfg.blocks[b]["el"])}) or []
            lines = [l for l in f.cfg.block_lines(pth) if l]
            detail = ("a path (lines %s) returns without the recursive call %s::%s (line %s): the blocks of the other dimensions are not written when "
                      "this dimension is skipped" % (lines[-4:], re.sub(r"FEAT::(Geometry::|Shape::)?", "", rec[0]["ccls"]), f.name, rec[0].get("l")))
        r_ = seen.setdefault(key, {"ok": True, "detail": detail, "fn": f})
        if not ok:
            r_["ok"], r_["detail"] = False, detail
    for key, r_ in sorted(seen.items()):
        ck.ob("E12.dimension-recursion", key, r_["ok"], r_["detail"], r_["fn"].file, r_["fn"].line)


# -------------------------------------------------------------------------------------------------
# E2.parsed-conversion / E7.parse-unsigned-sign / E7.attr-value-used
# -------------------------------------------------------------------------------------------------

def int_kind(t):
    """'u' / 's' for an unsigned / signed integer type string, else None"""
    t = (t or "").replace("const ", "").replace("&", "").strip()
    if re.search(r"\b(unsigned|Index|IndexType|size_t|uint\d+_t|size_type)\b", t) and "*" not in t and "<" not in t:
        return "u"
    if re.fullmatch(r"(signed )?(int|long|long long|short|std::int\d+_t|int\d+_t|std::ptrdiff_t|ptrdiff_t)", t):
        return "s"
    return None


def arith_leaves(g, e):
    """leaves of an integer expression built with + - * and casts that keep the signedness (a cast to the other signedness ends the walk:
    what is below it is a conversion site of its own)"""
    out, todo = [], [e]
    while todo:
        x = todo.pop()
        if not isinstance(x, dict):
            continue
        if x.get("k") == "Ref" and "_init" in x:
            out.append(x)
        elif x.get("k") == "Bin" and x.get("op") in ("+", "-", "*"):
            todo += [x.get("lhs"), x.get("rhs")]
        elif x.get("k") == "Cast" and x.get("e") is not None:
            ka, kb = int_kind(x.get("to") if isinstance(x.get("to"), str) else g.ntype(x)), int_kind(g.ntype(x["e"]))
            if ka is not None and ka == kb:
                todo.append(x["e"])
        else:
            out.append(x)
    return out


def rule_parsed_conversion(ck, W, facts):
    rule = "E2.parsed-conversion"
    cfs_all = class_functions(facts)
    seen = {}
    for f in reader_functions(facts):
        cfs = cfs_all.get(f.cls, [f])
        for n in f.nodes():
            if not (n.get("k") == "MCall" and n.get("callee") == "FEAT::String::parse" and n.get("a")):
                continue
            tgt = strip(n["a"][0])
            if tgt is None:
                continue
            kind = int_kind(f.ntype(tgt))
            if kind is None:
                continue
            X = norm(tgt)
            field = is_this_field(tgt)
            if not field and not (tgt.get("k") == "Ref" and tgt.get("dk") == "local"):
                continue          # elements of containers: bounded by the rules of the container (index-range, sizes)
            # conversions of X to the other signedness
            scope = cfs if field else [f]
            convs = []
            for g in scope:
                if g.cfg is None:
                    continue
                for c in g.nodes():
                    if c.get("k") == "Cast" and c.get("ck") in ("functional", "static", "cstyle") and c.get("e") is not None \
                       and ((norm(c["e"]) == X and (not field or is_this_field(strip(c["e"]))))
                            or (int_kind(g.ntype(c["e"])) == kind and any(norm(lf) == X and (not field or is_this_field(lf)) for lf in arith_leaves(g, c["e"])))):
                        # the operand is X or an integer expression of X computed in X's signedness: `std::size_t((X+1)*d + 1)`
                        to = int_kind(c.get("to") if isinstance(c.get("to"), str) else g.ntype(c))
                        if to is not None and to != kind:
                            convs.append((g, c))
                    elif kind == "s" and ((c.get("k") == "MCall" and re.search(r"::(at|operator\[\])$", c.get("callee") or "") and len(c.get("a", [])) == 1)
                                          or (c.get("k") == "OpCall" and c.get("op") == "[]" and len(c.get("a", [])) == 2)):
                        # a signed expression of X used as the position in a container: converted to the unsigned size_type implicitly
                        ix = c["a"][-1]
                        if int_kind(g.ntype(ix)) == "s" and any(norm(lf) == X and (not field or is_this_field(lf)) for lf in arith_leaves(g, ix)):
                            convs.append((g, c))
            if not convs:
                continue
            key = "%s::%s/%s" % (short(f.cls), f.name, X)
            rec = seen.setdefault(key, {"probs": [], "unk": [], "fn": f, "line": n.get("l"), "n": 0})
            rec["n"] += 1

            def bounded(fs):
                for fa in fs or ():
                    if fa[0] == "==" and fa[3] and X in (fa[1], fa[2]):
                        return True
                    if fa[0] == "==" and fa[3] and kind == "u" and any(sd is not None and sd.endswith(".size()") for sd in (fa[1], fa[2])) and X in fact_leaves(fa):
                        return True          # a container size equals an expression of X (number of tokens == f(count)): X is as small as the line
                    if fa[0] != "<":
                        continue
                    if kind == "u":
                        # X < B  or  not (B < X)
                        if (fa[1] == X and fa[3]) or (fa[2] == X and not fa[3]):
                            return True
                    else:
                        # not (X < K), K >= 0   or   K < X, K >= -1... (literal K)
                        if fa[1] == X and not fa[3] and re.fullmatch(r"\d+", fa[2] or ""):
                            return True
                        if fa[2] == X and fa[3] and re.fullmatch(r"\d+", fa[1] or ""):
                            return True
                return False
            e = W.ecfg(f)
            where = []
            if field:
                for b in e.normal_exits():
                    if not bounded(e.facts_at_end(b, e.exit)):
                        where.append("%s() returns normally" % f.name)
                        break
            for g, c in convs:
                if g is f:
                    fs = e.facts_at(c)
                    if fs is not None and not bounded(fs) and not field:
                        where.append("line %s" % c.get("l"))
            if where:
                g0, c0 = convs[0]
                what = ("`%s` (line %s, %s)" % (render(c0)[:30], c0.get("l"), g0.name))
                in_f = [c for g, c in convs if g is f]
                sus = suspects(W, e, in_f[0], vars_of(tgt)) if in_f else suspects(W, e, None, vars_of(tgt), anywhere=True)
                if field:
                    # a member helper called by the callback that compares the field may perform the rejection in a form whose facts
                    # did not reach this point (e.g. against a value computed in the helper)
                    for h in W.helpers_of(f) + [h_ for n_ in f.nodes() if n_.get("k") == "MCall" and (n_.get("obj") is None or strip(n_["obj"]).get("k") == "This")
                                                for h_ in [W.resolve(n_, f)] if h_ is not None and h_.cfg is not None and h_ is not f]:
                        if any(cmp_parts(x) is not None and ("@" + strip(tgt)["n"]) in vars_of(x) and any(not v.startswith("@") for v in vars_of(x))
                               for x in h.nodes() if x.get("k") in ("Bin", "OpCall")):
                            sus = sus + ["%s()" % h.name]       # (comparisons over fields and constants only are in the helper's summary)
                msg = ("the parsed %s value %s is converted to %s in %s without a rejection that bounds it %s (%s): %s" % (
                    "unsigned" if kind == "u" else "signed", X, "a signed type" if kind == "u" else "an unsigned type", what,
                    "from above" if kind == "u" else "to non-negative values", "; ".join(where[:2]),
                    "a value >= 2^31 becomes negative" if kind == "u" else "a negative value becomes a huge count"))
                if sus:
                    rec["unk"].append(msg + "; but %s may restrict it" % sus)
                else:
                    rec["probs"].append(msg)
    for key, rec in sorted(seen.items()):
        if rec["unk"] and not rec["probs"]:
            undecided(ck, rule, key, "; ".join(sorted(set(rec["unk"]))))
            continue
        ck.ob(rule, key, not rec["probs"], "; ".join(sorted(set(rec["probs"]))) or "range-checked before the conversion (%d instantiation(s))" % rec["n"],
              rec["fn"].file, rec["line"])


def rule_parse_sign(ck, W, facts):
    rule = "E7.parse-unsigned-sign"
    try:
        sf = featlib.extract("tu/c11_meshio.cpp", files=featlib.repo_path("kernel/util/string\\.hpp"), names=r"FEAT::String::parse")
    except (featlib.AnalysisBroken, OSError) as ex:
        ck.incomplete(rule, "String::parse not extracted: %s" % str(ex)[:120])
        return
    ck.tu(sf)
    insts = [g for g in sf.functions if g.tk != "pattern" and g.qn == "FEAT::String::parse" and g.body is not None and g.params
             and int_kind(g.type(g.params[0]["t"])) == "u"]
    if not insts:
        ck.incomplete(rule, "no instantiation of String::parse for an unsigned type found")
        return
    probs, unk = [], []
    for g in insts:
        resolve_const_locals(g)
        norm_c11.resolve_aliases(g)
        nodes = list(g.nodes())
        minus = [x for x in nodes if (x.get("k") == "Char" and x.get("v") == 45) or (x.get("k") == "Str" and "-" in str(x.get("v")))]
        safe_conv = [x for x in nodes if x.get("k") in ("Call", "MCall") and re.search(r"from_chars|stoul|strtou", x.get("callee") or "")]
        extr = [x for x in nodes if x.get("k") == "OpCall" and x.get("op") == ">>"]
        if minus:
            e = ECFG(g, W.neverret or set())
            ok = False
            for b in e.el:
                br = e.branch(b)
                if br is None or not any(any(z is y for z in minus) for y in walk_init(br[0])):
                    continue
                for s_ in e.succ.get(b, []):
                    reach = e.reachable(s_)
                    rets = [x for bb in reach for x in (g.by_id(i) for i in e.el[bb]) if x is not None and x.get("k") == "Return"]
                    if rets and all(strip(r.get("e")) is not None and strip(r["e"]).get("k") == "Bool" and not strip(r["e"])["v"] for r in rets):
                        ok = True
            if not ok:
                unk.append("%s mentions '-' but no branch on it returns false" % g.full[-40:])
        elif safe_conv and not extr:
            unk.append("%s converts with %s; its handling of a sign is not modelled" % (g.full[-40:], safe_conv[0].get("callee")))
        elif extr:
            probs.append("parse<%s> extracts with `iss >> t` and returns !iss.fail(): for an unsigned target the extraction accepts \"-1\" and stores 2^N-1 "
                         "without failbit, no branch rejects a leading '-'" % g.type(g.params[0]["t"]).replace("&", "").strip())
        else:
            unk.append("%s: conversion not recognised" % g.full[-40:])
    g0 = insts[0]
    if unk and not probs:
        undecided(ck, rule, "String::parse<unsigned>", "; ".join(sorted(set(unk))))
    else:
        ck.ob(rule, "String::parse<unsigned>", not probs, "; ".join(sorted(set(probs))[:2]) or "a leading '-' is rejected (%d unsigned instantiation(s))" % len(insts), g0.file, g0.line)


def attr_key_of(f, expr, attrs, depth=0):
    """attribute name K if expr is (derived from) a look-up of K in the attribute map `attrs`: attrs.find(K) / attrs.at(K) /
    helper(attrs, K), directly or through the locals it is bound to"""
    if expr is None or depth > 3:
        return None
    for z in walk_init(expr):
        if z.get("k") in ("MCall", "Call") and z.get("a"):
            ops = [z.get("obj")] + list(z.get("a", []))
            if any(o is not None and strip(o) is not None and strip(o).get("k") == "Ref" and strip(o).get("n") == attrs for o in ops):
                for a in z.get("a", []):
                    if str_value(a) is not None:
                        return str_value(a)
    r = root_var(expr)
    if r and r != attrs:
        li = local_init(f, r)
        if li is not None:
            return attr_key_of(f, li, attrs, depth + 1)
    return None


def rule_attr_value_used(ck, W, pcs, facts):
    rule = "E7.attr-value-used"
    cfs_all = class_functions(facts)
    groups = {}
    for pc in pcs:
        groups.setdefault(pc.short, []).append(pc)
    for name, insts in sorted(groups.items()):
        res = {}
        for pc in insts:
            create = pc.m["create"]
            if len(create.params) < 4 or not create.params[3].get("n"):
                continue
            attrs = create.params[3]["n"]
            cfs = [g for g in cfs_all.get(pc.cls, []) if g.body is not None]
            for n in create.nodes():
                lhs = rhs = None
                if n.get("k") == "Assign" and n.get("op") == "=":
                    lhs, rhs = n["lhs"], n["rhs"]
                elif n.get("k") == "OpCall" and n.get("op") == "=" and len(n.get("a", [])) == 2:
                    lhs, rhs = n["a"][0], n["a"][1]
                if n.get("k") == "MCall" and n.get("callee") == "FEAT::String::parse" and n.get("a") and is_this_field(n["a"][0]):
                    # a field filled by parsing (a token of) an attribute
                    Kp = trace_attr(create, n.get("obj")) or attr_key_of(create, n.get("obj"), attrs)
                    o_ = strip(n.get("obj"))
                    if Kp is None and o_ is not None and o_.get("k") == "MCall" and strip(o_.get("obj")) is not None and strip(o_["obj"]).get("k") == "Ref":
                        li_ = local_init(create, strip(o_["obj"])["n"])
                        if li_ is not None and li_.get("k") == "MCall" and li_.get("callee") in SPLITS:
                            Kp = trace_attr(create, li_.get("obj"))
                    if Kp is not None:
                        lhs, rhs = n["a"][0], None
                        fld = strip(lhs)["n"]
                        reads = 0
                        for g in cfs:
                            tg_ids = {id(strip(x["a"][0])) for x in g.nodes() if x.get("k") == "MCall" and x.get("callee") == "FEAT::String::parse" and x.get("a")}
                            lhs_ids = {id(strip(x["lhs"])) for x in g.nodes() if x.get("k") == "Assign"}      # (`_yaw *= mult` updates the field, it does not consume it)
                            reads += sum(1 for x in g.nodes() if x.get("k") == "Member" and x.get("n") == fld and is_this_field(x) and id(x) not in tg_ids and id(x) not in lhs_ids)
                        for g in cfs:
                            for i_ in (g.d.get("inits") or []):
                                if i_.get("init") is not None and ("@" + fld) in vars_of(i_["init"]):
                                    reads += 1
                        res.setdefault((fld, Kp), []).append((reads, create, n))
                    continue
                if lhs is None or not is_this_field(lhs):
                    continue
                # the right-hand side is (the text of) an attribute: attrs.find(K)->second / it->second with it = attrs.find(K) / *helper(attrs, K)
                K = None
                for z in walk_init(rhs):
                    if z.get("k") in ("MCall", "Call") and z.get("a") and any(strip(a) is not None and strip(a).get("k") == "Ref" and strip(a).get("n") == attrs for a in [z.get("obj")] + list(z.get("a", [])) if a is not None):
                        for a in z.get("a", []):
                            if str_value(a) is not None:
                                K = str_value(a)
                if K is None:
                    r = root_var(rhs)
                    if r:
                        li = local_init(create, r)
                        for z in walk(li or {}):
                            if z.get("k") in ("MCall", "Call") and z.get("a") and str_value(z["a"][-1] if z.get("k") == "Call" else z["a"][0]) is not None \
                               and attrs in vars_of(z):
                                K = str_value(z["a"][-1] if z.get("k") == "Call" else z["a"][0])
                if K is None:
                    continue
                fld = strip(lhs)["n"]
                reads = 0
                for g in cfs:
                    lhs_ids = {id(strip(x["lhs"])) for x in g.nodes() if x.get("k") == "Assign"} | \
                              {id(strip(x["a"][0])) for x in g.nodes() if x.get("k") == "OpCall" and x.get("op") == "=" and x.get("a")}
                    reads += sum(1 for x in g.nodes() if x.get("k") == "Member" and x.get("n") == fld and is_this_field(x) and id(x) not in lhs_ids)
                for g in cfs:
                    for i_ in (g.d.get("inits") or []):
                        if i_.get("init") is not None and ("@" + fld) in vars_of(i_["init"]):
                            reads += 1
                if reads == 0:
                    # the field is a dead copy, but the attribute's value itself is handed on (`_linker.link(_name, it->second)`)
                    for c_ in create.nodes():
                        if c_.get("k") in ("MCall", "Call") and (c_.get("callee") or "").startswith("FEAT::") and not (c_.get("callee") or "").startswith("FEAT::String::"):
                            for a_ in c_.get("a", []):
                                if strip(a_) is not None and strip(a_).get("k") in ("Member", "Ref", "OpCall", "MCall") and not is_this_field(a_) \
                                   and (trace_attr(create, a_) or attr_key_of(create, a_, attrs)) == K:
                                    reads += 1
                res.setdefault((fld, K), []).append((reads, create, n))
        for (fld, K), lst in sorted(res.items()):
            dead = [x for x in lst if x[0] == 0]
            f0, n0 = lst[0][1], lst[0][2]
            ck.ob(rule, "%s::create/%s<-%s" % (name, fld, K), not dead,
                  ("%s receives the value of attribute '%s' but no member function of %s ever reads it: the declared value is neither validated nor applied" % (fld, K, name))
                  if dead else "read by the class (%d instantiation(s))" % len(lst), f0.file, n0.get("l"))


# -------------------------------------------------------------------------------------------------
# E7.sibling-forwarding / E11.attr-formula-roundtrip / E7.callee-precondition (atlas chart parsers and writers)
# -------------------------------------------------------------------------------------------------

def parsed_fields(cfs):
    """fields of a parser class that some member function fills with String::parse"""
    out = set()
    for g in cfs:
        for n in g.nodes():
            if n.get("k") == "MCall" and n.get("callee") == "FEAT::String::parse" and n.get("a") and is_this_field(n["a"][0]):
                out.add(strip(n["a"][0])["n"])
    return out


def rule_sibling_forwarding(ck, W, pcs, facts):
    rule = "E7.sibling-forwarding"
    cfs_all = class_functions(facts)
    groups = {}
    for pc in pcs:
        groups.setdefault(pc.short, []).append(pc)
    for name, insts in sorted(groups.items()):
        res = {}
        for pc in insts:
            mk = pc.m["markup"]
            if mk.cfg is None or len(mk.params) < 3:
                continue
            pf = parsed_fields([g for g in cfs_all.get(pc.cls, []) if g.body is not None])
            if not pf:
                continue
            tags = sorted(t for t in reader_children(W, {}, mk) if t != "?")
            regions = {}
            for t in tags:
                sub = branch_for_name(mk, t)
                if sub is None:
                    continue
                built = {strip_targs(x["init"].get("ccls") or "") for y in sub["s"] for x in walk(y) if x.get("k") == "New" and (x.get("init") or {}).get("ccls")}
                reads = {x["n"] for y in sub["s"] for x in walk_init(y) if x.get("k") == "Member" and is_this_field(x) and x["n"] in pf}
                # ... also through named temporaries of the branch (`const CoordType ox = _ori_x; ext->set_origin(ox, ..)`)
                for nm in {x["n"] for y in sub["s"] for x in walk(y) if x.get("k") == "Ref" and x.get("dk") == "local"}:
                    li = local_init(mk, nm)
                    if li is not None:
                        reads |= {x["n"] for x in walk_init(li) if x.get("k") == "Member" and is_this_field(x) and x["n"] in pf}
                for bt in built:
                    regions.setdefault(bt, {})[t] = reads
            for bt, by_tag in regions.items():
                if len(by_tag) < 2:
                    continue
                union = set().union(*by_tag.values())
                for fld in sorted(union):
                    missing = sorted(t for t, r in by_tag.items() if fld not in r)
                    having = sorted(t for t, r in by_tag.items() if fld in r)
                    res.setdefault((short(bt), fld), []).append((missing, having, mk))
        for (bt, fld), lst in sorted(res.items()):
            bad = [x for x in lst if x[0]]
            mk = lst[0][2]
            ck.ob(rule, "%s::markup/%s/%s" % (name, bt, fld), not bad,
                  ("the branch for <%s> builds a %s without reading the parsed field %s, which the sibling branch for <%s> hands over: the attribute is "
                   "parsed, validated and then dropped for this sub-chart kind" % (bad[0][0][0], bt, fld, bad[0][1][0])) if bad else
                  "read by all %d branches that build a %s" % (len(lst[0][1]), bt), mk.file, mk.line)


def parse_bindings(W, f, cfs):
    """{local name: (attribute, token index)} for the String::parse calls of a create() body"""
    out = {}
    for m in f.nodes():
        if not (m.get("k") == "MCall" and m.get("callee") == "FEAT::String::parse" and m.get("a")):
            continue
        tgt = strip(m["a"][0])
        if tgt is None or tgt.get("k") != "Ref":
            continue
        o = strip(m.get("obj"))
        K = trace_attr(f, m.get("obj"))
        idx = None
        if o is not None and o.get("k") == "MCall" and o.get("n") in ("front", "back", "at", "operator[]") and strip(o.get("obj")) is not None \
           and strip(o["obj"]).get("k") == "Ref":
            D = strip(o["obj"])["n"]
            li = local_init(f, D)
            if li is not None and li.get("k") == "MCall" and li.get("callee") in SPLITS:
                K = trace_attr(f, li.get("obj"))
                tt = token_table(W, f, K, cfs) if K else None
                cnt = tt.get("count") if tt else None
                if o["n"] == "front":
                    idx = 0
                elif o["n"] == "back":
                    idx = cnt - 1 if cnt else None
                else:
                    idx = _int_lit(o["a"][0]) if o.get("a") else None
        elif o is not None and o.get("k") == "OpCall" and o.get("op") == "[]" and len(o.get("a", [])) == 2 and strip(o["a"][0]) is not None \
                and strip(o["a"][0]).get("k") == "Ref":
            # tokens[1] on the deque of tokens
            li = local_init(f, strip(o["a"][0])["n"])
            if li is not None and li.get("k") == "MCall" and li.get("callee") in SPLITS:
                K = trace_attr(f, li.get("obj"))
                idx = _int_lit(o["a"][1])
            else:
                K = None
        elif K is not None:
            r_ = root_var(m.get("obj"))
            li = local_init(f, r_) if r_ else None
            if li is not None and li.get("k") == "MCall" and li.get("callee") in SPLITS:
                K = None          # a token of a split attribute selected in a form that is not modelled: no binding rather than a wrong one
            else:
                idx = 0
        if K is not None and idx is not None:
            out[tgt["n"]] = (K, idx)
    return out


def constructions(f, cfs_all):
    """objects a function creates: [(node, class, argument nodes, constructor Function or None)] for `new T(args)` and
    std::make_unique / std::make_shared<T>(args) of a class with analysed constructors"""
    out = []
    for n in f.nodes():
        if n.get("k") == "New" and (n.get("init") or {}).get("ccls"):
            con = n["init"]
            g = [g_ for g_ in cfs_all.get(con["ccls"], []) if g_.d.get("ctor") and g_.d.get("decl") == con.get("cdecl")]
            out.append((n, con["ccls"], con.get("a", []), g[0] if g else None))
        elif n.get("k") == "Call" and n.get("callee") in ("std::make_unique", "std::make_shared"):
            cls = first_targ(n.get("cfull") or "")
            ctors = [g_ for g_ in cfs_all.get(cls, []) if g_.d.get("ctor") and len(g_.params) == len(n.get("a", []))]
            if cls in cfs_all and len(ctors) == 1:
                out.append((n, cls, n.get("a", []), ctors[0]))
    return out


def ctor_fields(sx_cls, ctor, env, by_decl, depth=0):
    """{field symbol name: sympy value} a constructor gives the fields for the parameter values `env` (delegation followed)"""
    fields = {}
    sc = sx_cls(ctor)
    for it in ctor.d.get("inits") or []:
        if it.get("member") and it.get("init") is not None:
            try:
                fields["o_" + re.sub(r"\W+", "_", it["member"])[:60]] = sc.sx(it["init"], env)
            except Unknown:
                pass
        elif it.get("delegating") and depth < 2:
            call = strip(it.get("init")) or {}
            h = by_decl.get(call.get("cdecl"))
            if h is None:
                raise Unknown("delegation target not resolved")
            env2 = {}
            for p_, a in zip(h.params, call.get("a", [])):
                env2[p_["n"]] = sc.sx(a, env)
            fields.update(ctor_fields(sx_cls, h, env2, by_decl, depth + 1))
    for env2, conds, _ in sc.run(env):
        for lhs, val in env2.get("\0stores", []):
            fields["o_" + re.sub(r"\W+", "_", norm(lhs))[:60]] = val
        for k_, v_ in env2.items():
            if isinstance(k_, str) and k_.startswith("@"):
                fields["o_" + re.sub(r"\W+", "_", k_[1:])[:60]] = v_
    return fields


def rule_attr_formula_roundtrip(ck, W, pcs, facts):
    rule = "E11.attr-formula-roundtrip"
    import random
    try:
        import sympy as sp
    except ImportError:
        ck.incomplete(rule, "sympy not available")
        return
    cfs_all = class_functions(facts)
    seen = {}
    for pc in pcs:
        create = pc.m["create"]
        if not re.search(r"/atlas/", create.file or ""):
            continue
        cfs = cfs_all.get(pc.cls, [])
        binds = None
        for nw, ccls, cargs, ctor0 in constructions(create, cfs_all):
            ctor = [ctor0] if ctor0 is not None else []
            wr = [g for g in cfs_all.get(ccls, []) if g.name == "write" and g.body is not None and len(g.params) == 2]
            if not ctor or not wr:
                continue
            if binds is None:
                binds = parse_bindings(W, create, cfs)
            args = [strip(a) for a in cargs]
            bound = [(p_, binds.get(a["n"])) for p_, a in zip(ctor[0].params, args) if a is not None and a.get("k") == "Ref" and a.get("n") in binds]
            if not bound:
                continue
            cname = short(ccls)
            # writer: value operands per attribute, on a path that emits the attribute
            wvals = {}
            unk = []
            for K in sorted({b[0] for _, b in bound}):
                se = SymExec(wr[0])
                se.skip_loops = True
                se.capture = angle_operands(K)
                try:
                    paths = se.run()
                except Unknown as ex:
                    unk.append("%s::write: %s" % (cname, ex))
                    continue
                caps = [c for _, _, c in paths if c]
                if not caps:
                    continue      # emitted as literal alternatives only (E12.vocabulary compares those) or not at all
                if any(len(c) != len(caps[0]) or any(sp.simplify(x - y) != 0 for x, y in zip(c, caps[0])) for c in caps[1:]):
                    unk.append("%s::write emits attribute '%s' with different values on different paths" % (cname, K))
                    continue
                wvals[K] = caps[0]
            # reader: the constructor with its parameters bound to the written tokens
            env = {}
            ok_bind = True
            for p_, (K, idx) in bound:
                if K not in wvals:
                    continue
                if idx >= len(wvals[K]):
                    ok_bind = False
                    continue
                env[p_["n"]] = wvals[K][idx]
            key0 = "%s(%s)" % (cname, ",".join(sorted({b[0] for _, b in bound})))
            if unk or not ok_bind:
                for u in unk or ["token binding of %s not resolved" % key0]:
                    seen.setdefault(("?", key0), []).append(u)
                continue
            by_decl_ = {g_.d.get("decl"): g_ for g_ in cfs_all.get(ccls, []) if g_.d.get("decl") is not None}
            try:
                fields = ctor_fields(SymExec, ctor[0], env, by_decl_)
            except (Unknown, TypeError) as ex:
                seen.setdefault(("?", key0), []).append("constructor of %s: %s" % (cname, ex))
                continue
            used = set()
            for K in {b[0] for _, b in bound}:
                for e_ in wvals.get(K, []):
                    used |= {str(x) for x in e_.free_symbols}
            for fs in sorted(used):
                if fs not in fields:
                    continue
                F = sp.Symbol(fs, real=True)
                got = fields[fs]
                if not isinstance(got, sp.Expr) or any(not str(x).startswith("o_") for x in got.free_symbols):
                    continue          # (depends on a constructor argument that is not a written token)
                diff = sp.simplify(got - F)
                prob = None
                if diff != 0:
                    rnd = random.Random(11)
                    syms = sorted(diff.free_symbols, key=str)
                    for _ in range(12):
                        pt = {x: sp.Rational(rnd.randint(1, 29), rnd.randint(2, 9)) * rnd.choice((1, -1)) for x in syms}
                        try:
                            v = complex(diff.subs(pt).evalf())
                        except Exception:
                            continue
                        if abs(v) > 1e-9:
                            prob = ("written and read back, %s becomes %s instead of %s (e.g. %s: off by %.6g): write() does not invert the formula of the constructor "
                                    "the parser calls" % (fs[2:], sp.simplify(got), fs[2:], ", ".join("%s=%s" % (str(k_)[2:], float(v_)) for k_, v_ in sorted(pt.items(), key=lambda kv: str(kv[0]))[:3]), abs(v)))
                            break
                seen.setdefault(("ob", "%s/%s" % (cname, fs[2:])), []).append((prob, wr[0]))
    for (kind, key), lst in sorted(seen.items()):
        if kind == "?":
            undecided(ck, rule, key, "; ".join(sorted(set(lst)))[:300])
            continue
        probs = [p_ for p_, _ in lst if p_]
        ck.ob(rule, key, not probs, probs[0] if probs else "reproduced through constructor and parser binding (%d instantiation(s))" % len(lst), lst[0][1].file, lst[0][1].line)


def _assign_parts(n):
    if n.get("k") == "Assign" and n.get("op") == "=":
        return n["lhs"], n["rhs"]
    if n.get("k") == "OpCall" and n.get("op") == "=" and len(n.get("a", [])) == 2:
        return n["a"][0], n["a"][1]
    return None, None


STORE_CALLS = ("emplace_back", "push_back", "emplace_front", "push_front", "emplace", "insert", "push")


def rule_deferred_roles(ck, W, pcs, facts):
    rule = "E1.deferred-roles"
    cfs_all = class_functions(facts)
    res = {}

    def attr_role(f, cfs, arg):
        """role word of the attribute the argument carries: K, or the element (class) name for K == name"""
        a = strip(arg)
        if a is None:
            return None
        K = None
        if is_this_field(a):
            for g in cfs:
                if g.body is None:
                    continue
                attrs = g.params[3]["n"] if g.name == "create" and len(g.params) >= 4 and g.params[3].get("n") else None
                for n in g.nodes():
                    lhs, rhs = _assign_parts(n)
                    if lhs is None or not is_this_field(lhs) or strip(lhs)["n"] != a["n"]:
                        continue
                    k_ = trace_attr(g, rhs) or (attr_key_of(g, rhs, attrs) if attrs else None)
                    if k_ is None:
                        return None
                    if K is not None and K != k_:
                        return None
                    K = k_
        else:
            attrs = f.params[3]["n"] if f.name == "create" and len(f.params) >= 4 and f.params[3].get("n") else None
            K = trace_attr(f, a) or (attr_key_of(f, a, attrs) if attrs else None)
        if K is None:
            return None
        return re.sub(r"parser$", "", short(f.cls).lower()) if K == "name" else K.lower()

    def param_components(m, pname):
        """(field F, component) pairs the helper stores its parameter in; None if a use of the parameter is not understood"""
        out = []
        for n in m.nodes():
            if not (n.get("k") == "MCall" and n.get("n") in STORE_CALLS and n.get("obj") is not None and is_this_field(n["obj"])):
                continue
            F = strip(n["obj"])["n"]
            args = list(n.get("a", []))
            while len(args) == 1 and strip(args[0]) is not None and strip(args[0]).get("k") in ("Call", "Construct", "TempObj", "InitList") \
                    and (strip(args[0]).get("k") != "Call" or strip(args[0]).get("callee") in ("std::make_pair", "std::make_tuple")) and len(strip(args[0]).get("a", [])) >= 1 \
                    and not (len(strip(args[0]).get("a", [])) == 1 and strip(strip(args[0])["a"][0]).get("k") == "Ref"):
                args = list(strip(args[0])["a"])
            if len(args) == 1 and strip(args[0]).get("k") in ("Construct", "TempObj") and len(strip(args[0]).get("a", [])) == 1:
                args = list(strip(args[0])["a"])
            for pos, a in enumerate(args):
                a_ = strip(a)
                if a_ is not None and a_.get("k") == "Ref" and a_.get("n") == pname and a_.get("dk") == "param":
                    out.append((F, "" if len(args) == 1 else ("first", "second", "third")[min(pos, 2)] if len(args) <= 2 else "#%d" % pos))
                elif a_ is not None and any(x.get("k") == "Ref" and x.get("n") == pname and x.get("dk") == "param" for x in walk_init(a_)):
                    return None
        uses = sum(1 for x in m.nodes() if x.get("k") == "Ref" and x.get("n") == pname and x.get("dk") == "param")
        if uses != len(out):
            return None
        return out

    def is_read(x, F, comp):
        if comp == "":
            return x.get("k") in ("MCall", "OpCall", "Index") and root_var(x) == F and (x.get("n") in ("front", "back", "at", "top") or x.get("op") in ("[]", "*") or x.get("k") == "Index")
        return x.get("k") == "Member" and x.get("n") == comp and x.get("b") is not None and root_var(x["b"]) == F

    def sinks_of(cls, F, comp):
        """(function, call, parameter position) of the calls that consume the stored component; second value: reads the rule could not follow"""
        out, lost = [], 0
        for g in cfs_all.get(cls, []):
            if g.body is None:
                continue
            reads = [x for x in g.nodes() if is_read(x, F, comp)]
            if not reads:
                continue
            holders = set()
            for v in g.nodes():
                if v.get("k") == "Var" and v.get("init") is not None and any(is_read(x, F, comp) for x in walk(v["init"])):
                    if any(x.get("k") in ("MCall", "Call") and x.get("callee", "").startswith("FEAT::") for x in walk(v["init"]) if not is_read(x, F, comp)):
                        continue          # the read is an argument of a call inside the initialiser: that call is the sink
                    holders.add(v.get("d"))
            hit = False
            for c in g.nodes():
                if c.get("k") not in ("MCall", "Call") or not (c.get("callee") or "").startswith("FEAT::") or c.get("callee", "").startswith("FEAT::String::"):
                    continue
                for pos, a in enumerate(c.get("a", [])):
                    a_ = strip(a)
                    if a_ is None:
                        continue
                    direct = any(is_read(x, F, comp) for x in walk_init(a)) if a_.get("k") != "Ref" or "_init" in (a if a.get("k") == "Ref" else {}) else False
                    if direct or (a_.get("k") == "Ref" and a_.get("dk") == "local" and a_.get("d") is not None and a_.get("d") in holders) or (a_.get("k") != "Ref" and is_read(a_, F, comp)):
                        out.append((g, c, pos))
                        hit = True
            if not hit:
                lost += 1
        return out, lost

    def sink_role(g, c):
        t = g.ntype(c) or ""
        if "*" not in t and "shared_ptr" not in t and "unique_ptr" not in t:
            return None
        return strip_targs(t).replace("*", "").replace("const ", "").strip().rsplit("::", 1)[-1].lower()

    for f in reader_functions(facts):
        if f.cls not in PARSER_CLS:
            continue
        cfs = cfs_all.get(f.cls, [f])
        for n in f.nodes():
            if n.get("k") != "MCall" or not n.get("ccls") or n["ccls"] in PARSER_CLS or not n["ccls"].startswith("FEAT::") or n["ccls"] not in cfs_all:
                continue
            if not re.search(r"mesh_file_reader", n.get("cfile") or ""):
                continue
            m = W.resolve(n, f)
            if m is None or m.body is None or len(n.get("a", [])) != len(m.params):
                continue
            strs = [i for i, p_ in enumerate(m.params) if re.search(r"\bString\b", m.type(p_["t"]) or "")]
            if not strs:
                continue
            roles = {i: attr_role(f, cfs, n["a"][i]) for i in strs}
            for i in strs:
                key = "%s::%s -> %s(%s)" % (short(f.cls), f.name, m.name, m.params[i].get("n") or "#%d" % i)
                rec = res.setdefault(key, {"probs": [], "unk": [], "ok": [], "fn": f, "line": n.get("l")})
                if roles[i] is None:
                    rec["unk"].append("the attribute the argument `%s` carries is not determined" % render(n["a"][i])[:40])
                    continue
                comps = param_components(m, m.params[i].get("n"))
                found = []
                lost = 0
                if comps:
                    for F, comp in comps:
                        sk, l_ = sinks_of(m.cls, F, comp)
                        lost += l_
                        found += [(F, comp, g, c, pos) for g, c, pos in sk]
                typed = [(F, comp, g, c, pos, sink_role(g, c)) for F, comp, g, c, pos in found]
                typed = [t for t in typed if t[5]]
                others = {j: roles[j] for j in strs if j != i and roles[j]}
                if typed:
                    for F, comp, g, c, pos, sr in typed:
                        what = "%s%s, taken out in %s() and looked up with %s (a %s)" % (F, "." + comp if comp else "", g.name, c.get("n") or c.get("callee"), sr)
                        if roles[i] in sr:
                            rec["ok"].append(what)
                        elif any(r_ in sr for r_ in others.values()):
                            rec["probs"].append("the argument `%s` carries the %s name (attribute %s), but parameter `%s` of %s() is stored in %s: the %s name goes where "
                                                "the %s name belongs, the pair is crossed between the call and the helper" % (
                                                    render(n["a"][i])[:30], roles[i], "name" if roles[i] not in ("chart",) and roles[i] == re.sub(r"parser$", "", short(f.cls).lower()) else roles[i],
                                                    m.params[i].get("n"), m.name, what, roles[i], [r_ for r_ in others.values() if r_ in sr][0]))
                        else:
                            rec["unk"].append("the role of the look-up %s is not related to an attribute of the call" % what)
                else:
                    # no typed consumer in reach: the helper's own parameter name is the declared role
                    pn = (m.params[i].get("n") or "").lower().replace("_", "")
                    if pn and (roles[i] in pn or pn in roles[i]):
                        rec["ok"].append("parameter named %s" % m.params[i].get("n"))
                    elif pn and any(r_ in pn or pn in r_ for r_ in others.values()):
                        rec["probs"].append("the argument `%s` carries the %s name, but it is passed for the parameter `%s` of %s(), which another argument of the call names" % (
                            render(n["a"][i])[:30], roles[i], m.params[i].get("n"), m.name))
                    elif others and not (comps is None):
                        rec["elim"] = (n, i, strs, m)
                    elif comps is None or lost:
                        rec["unk"].append("the use of parameter `%s` in %s() is not followed to a typed look-up" % (m.params[i].get("n"), m.name))
                    else:
                        rec["unk"].append("parameter `%s` of %s() has no typed consumer and its name does not tell its role" % (m.params[i].get("n"), m.name))
    for key, rec in sorted(res.items()):
        if "elim" in rec and not rec["probs"] and not rec["unk"]:
            # neither a typed consumer nor a telling name: the role is what the other string parameters of the call leave over
            n, i, strs, m = rec["elim"]
            oth = [res.get("%s::%s -> %s(%s)" % (short(rec["fn"].cls), rec["fn"].name, m.name, m.params[j].get("n") or "#%d" % j)) for j in strs if j != i]
            if oth and all(o is not None and o["ok"] and not o["probs"] and not o["unk"] and "elim" not in o for o in oth):
                rec["ok"].append("every other name of the call reaches the look-up of its own kind")
            else:
                rec["unk"].append("parameter `%s` of %s() has no typed consumer and its name does not tell its role" % (m.params[i].get("n"), m.name))
    for key, rec in sorted(res.items()):
        if rec["probs"]:
            ck.ob(rule, key, False, "; ".join(sorted(set(rec["probs"]))[:2]), rec["fn"].file, rec["line"])
        elif rec["unk"]:
            undecided(ck, rule, key, "; ".join(sorted(set(rec["unk"]))[:2]))
        else:
            ck.ob(rule, key, True, "; ".join(sorted(set(rec["ok"]))[:2]), rec["fn"].file, rec["line"])


def _container_cell(f, x, depth=0):
    """root container name if x is a cell of an array / index container (through reference locals), else None"""
    x = strip(x)
    if x is None or depth > 4:
        return None
    if x.get("k") == "Ref" and x.get("dk") == "local":
        li = local_init(f, x["n"])
        if li is None or not re.search(r"&", f.type(next((v.get("t") for v in f.nodes() if v.get("k") == "Var" and v.get("n") == x["n"]), None)) or ""):
            return None
        return _container_cell(f, li, depth + 1)
    if x.get("k") == "Index":
        return root_var(x["b"]) or _container_cell(f, x["b"], depth + 1)
    if x.get("k") == "OpCall" and x.get("op") == "[]" and x.get("a"):
        return _container_cell(f, x["a"][0], depth + 1) or root_var(x["a"][0])
    if x.get("k") == "MCall" and x.get("n") in ("at", "operator()", "operator[]"):
        return root_var(x.get("obj"))
    return None


def rule_stored_index_bounded(ck, W, pcs, facts):
    rule = "E2.stored-index-bounded"
    cfs_all = class_functions(facts)
    seen = {}

    def rec_for(key, f, line):
        return seen.setdefault(key, {"probs": [], "unk": [], "ok": [], "fn": f, "line": line})

    def deferred_route(f, cfs, skip_vars):
        """('ok', text) / ('bad', text) / ('?', text) for a bound that is skipped when a member container is empty"""
        flds = sorted(v[1:] for v in skip_vars if v.startswith("@"))
        if len(flds) != 1:
            return "?", "the condition under which the comparison is skipped does not test one member container (%s)" % flds
        fld = flds[0]
        # the member is bound by the constructor from a parameter; find the construction site in another parser class
        ctors = [g for g in cfs if g.name == short(f.cls) or g.d.get("ctor")]
        ppos = None
        for g in ctors:
            for i_ in (g.d.get("inits") or []):
                if (i_.get("member") or "").rsplit("::", 1)[-1] == fld and i_.get("init") is not None:
                    r_ = strip(i_["init"])
                    if r_ is not None and r_.get("k") == "Ref" and r_.get("dk") == "param":
                        ppos = [p_.get("n") for p_ in g.params].index(r_["n"]) if r_["n"] in [p_.get("n") for p_ in g.params] else None
        if ppos is None:
            return "?", "member %s is not bound from a constructor parameter" % fld
        owner = src = None
        for g in facts.functions:
            if g.tk == "pattern" or g.body is None or g.cls not in PARSER_CLS or g.cls == f.cls:
                continue
            for site, ccls, args, _ct in constructions(g, cfs_all):
                if strip_targs(ccls) == strip_targs(f.cls) and len(args) > ppos and is_this_field(args[ppos]):
                    owner, src = g, strip(args[ppos])["n"]
        if owner is None:
            # the member holds an object handed over as an expression (`_root_node.get_mesh()`), and the comparison is skipped while it is null
            for g in facts.functions:
                if g.tk == "pattern" or g.body is None or g.cls not in PARSER_CLS or g.cls == f.cls:
                    continue
                for site, ccls, args, _ct in constructions(g, cfs_all):
                    if strip_targs(ccls) == strip_targs(f.cls) and len(args) > ppos:
                        owner, src = g, norm(args[ppos])
            if owner is None:
                return "?", "no construction of %s found that binds %s" % (short(f.cls), fld)
            E = src
            for g in cfs_all.get(owner.cls, []):
                if g.cfg is None:
                    continue
                regs = [x for x in g.nodes() if x.get("k") == "MCall" and x.get("ccls") and x["ccls"] not in PARSER_CLS and x["ccls"].startswith("FEAT::Geometry::")
                        and re.search(r"mesh_file_reader", x.get("cfile") or "") and x.get("obj") is not None and is_this_field(x["obj"])
                        and any(fa[0] == "==" and fa[1] == E and fa[2] == "nullptr" and fa[3] for fa in (W.ecfg(g).facts_at(x) or ()))]
                if not regs:
                    continue
                eg = W.ecfg(g)
                cut = {(b, s_) for b in eg.el for s_ in eg.succ.get(b, []) if s_ is not None
                       and any(fa[0] == "==" and fa[1] == E and fa[2] == "nullptr" and not fa[3] for fa in eg.edge_facts(b, s_))}
                avoid = {eg.where(x)[0] for x in regs if eg.where(x) is not None}
                if eg.exit in eg.reachable(cut_edges=cut, avoid=avoid | set(eg.throws)):
                    return "bad", "the comparison is skipped while %s is null, and %s::%s has a path on which %s is null and no deferred check is registered" % (fld, short(owner.cls), g.name, E)
                return "ok", "skipped only while %s is null; %s::%s then registers %s" % (fld, short(owner.cls), g.name, ", ".join(sorted({x.get("n") for x in regs})))
            return "bad", "the comparison is skipped while %s (= %s) is null, and no callback of %s registers a deferred check for that case" % (fld, E, short(owner.cls))
        fillers = []
        for g in cfs_all.get(owner.cls, []):
            if g.cfg is None:
                continue
            ids = {x["i"] for x in g.nodes() if x.get("k") == "MCall" and x.get("n") in ("push_back", "emplace_back", "resize", "assign", "insert") and is_this_field(x.get("obj"))
                   and strip(x["obj"])["n"] == src and "i" in x}
            ids |= {x["i"] for x in g.nodes() if _assign_parts(x)[0] is not None and is_this_field(_assign_parts(x)[0]) and strip(_assign_parts(x)[0])["n"] == src and "i" in x}
            if ids:
                # a counted loop around the fill whose first iteration is certain (`for(int i(0); i <= dim; ++i)`) fills on every path through it
                for lp in g.nodes():
                    if lp.get("k") == "For" and lp.get("body") is not None and any(x.get("i") in ids for x in walk(lp["body"])):
                        init, c = lp.get("init"), lp.get("c")
                        if init is not None and init.get("k") == "Decl" and len(init.get("vars", [])) == 1 and init["vars"][0].get("init") is not None and c is not None:
                            try:
                                v0 = evalnode(init["vars"][0]["init"], {})
                                if evalnode(c, {init["vars"][0]["n"]: v0}):
                                    ids |= {x["i"] for x in walk(init) if "i" in x}
                            except Unknown:
                                pass
                fillers.append((g, ids))
        if not fillers:
            return "?", "no callback of %s fills %s" % (short(owner.cls), src)
        for g, ids in fillers:
            regs = {}
            for x in g.nodes():
                if x.get("k") == "MCall" and x.get("ccls") and x["ccls"] not in PARSER_CLS and x["ccls"].startswith("FEAT::Geometry::") and re.search(r"mesh_file_reader", x.get("cfile") or "") \
                   and x.get("obj") is not None and is_this_field(x["obj"]) and "i" in x:
                    regs[x["i"]] = x
            ok, bad = g.cfg.must_pass(lambda n, ids=ids, regs=regs: n.get("i") in ids or n.get("i") in regs)
            if not ok:
                pth = g.cfg.path_to(bad[0], avoid={b for b in g.cfg.blocks if any(i in ids or i in regs for i in g.cfg.blocks[b]["el"])}) or []
                lines = [l for l in g.cfg.block_lines(pth) if l]
                return "bad", ("the comparison is skipped while %s is empty, and %s::%s has a path (lines %s) that neither fills %s nor registers a deferred check" % (
                    fld, short(owner.cls), g.name, lines[-4:], src))
            # the registered task is consumed by a method that can reject
            for x in regs.values():
                m = W.resolve(x, g)
                if m is None or m.body is None:
                    return "?", "the registration %s() is not resolved" % x.get("n")
                stores = [y for y in m.nodes() if y.get("k") == "MCall" and y.get("n") in STORE_CALLS and is_this_field(y.get("obj"))]
                if not stores:
                    return "?", "%s() does not store a task" % m.name
                F = strip(stores[0]["obj"])["n"]
                consumers = [h for h in cfs_all.get(m.cls, []) if h is not m and h.body is not None
                             and any(y.get("k") == "MCall" and y.get("n") in ("front", "back", "pop_front", "pop_back", "begin", "at") and is_this_field(y.get("obj")) and strip(y["obj"])["n"] == F for y in h.nodes())
                             and any(y.get("k") == "Throw" for y in h.nodes())]
                if not consumers:
                    return "bad", "the tasks %s() registers in %s are never taken out by a method that can reject" % (m.name, F)
            return "ok", "skipped only while %s is empty; %s::%s then registers %s" % (fld, short(owner.cls), g.name, ", ".join(sorted({x.get("n") for x in regs.values()})))
        return "?", "route not followed"

    for f in reader_functions(facts):
        if f.cls not in PARSER_CLS:
            continue
        cfs = cfs_all.get(f.cls, [f])
        if f.name != "content" and not any(g.name == "content" and g.body is not None for g in cfs):
            continue          # (content() itself, or a helper of a class with a content() callback the parse loop was moved into)
        e = None
        for n in f.nodes():
            if not (n.get("k") == "MCall" and n.get("callee") == "FEAT::String::parse" and n.get("a")):
                continue
            tgt = n["a"][0]
            if int_kind(f.ntype(strip(tgt))) != "u":
                continue
            cell = _container_cell(f, tgt)
            t_ = strip(tgt)
            handed = None
            if cell is None and t_.get("k") == "Ref" and t_.get("dk") == "local":
                for c_ in f.nodes():
                    if c_.get("k") == "MCall" and c_.get("obj") is not None and is_this_field(c_["obj"]) and re.search(r"insert|push|emplace|add", c_.get("n") or "") \
                       and any(strip(a_) is not None and strip(a_).get("k") == "Ref" and strip(a_).get("n") == t_["n"] for a_ in c_.get("a", [])):
                        handed = strip(c_["obj"])["n"]
            if cell is None and handed is None:
                continue
            key = "%s::content/%s" % (short(f.cls), cell or handed)
            rec = rec_for(key, f, n.get("l"))
            e = e or W.ecfg(f)
            cb = call_branch(e, n)
            if cb is None:
                rec["ok"].append("(result of the parse not branched on: E7.parse-result-used)")
                continue
            b, succ_ok = cb[0], cb[1]
            V = norm(tgt)
            strict, weak = set(), set()
            for bb in e.el:
                for s_ in e.succ.get(bb, []):
                    if s_ is None:
                        continue
                    for fa in e.edge_facts(bb, s_):
                        if fa[0] == "<" and fa[1] == V and fa[3]:
                            strict.add(fa[2])
                        elif fa[0] == "<" and fa[2] == V and not fa[3]:
                            weak.add(fa[1])
            for hc in f.nodes():
                if hc.get("k") == "MCall" and (hc.get("obj") is None or strip(hc["obj"]).get("k") == "This"):
                    for fa in W.param_summary(hc, f):
                        if fa[0] == "<" and fa[1] == V and fa[3]:
                            strict.add(fa[2])      # `_require_in_bounds(value, ..)`: holds when the helper returns
            done = False
            if not strict:
                # the comparison may live in a private helper called after the parse (`_require_in_bounds(iline, sline)`)
                for hc in f.nodes():
                    if not (hc.get("k") == "MCall" and (hc.get("obj") is None or strip(hc["obj"]).get("k") == "This")):
                        continue
                    h = W.resolve(hc, f)
                    if h is None or h.cfg is None or h is f or h.cls != f.cls or ("@" + (root_var(tgt) or "?")) not in {v for x in h.nodes() for v in vars_of(x)} or not is_this_field(strip(tgt).get("b") if strip(tgt).get("k") == "Index" else tgt):
                        continue
                    eh = W.ecfg(h)
                    hs = {fa[2] for bb in eh.el for s_ in eh.succ.get(bb, []) if s_ is not None for fa in eh.edge_facts(bb, s_) if fa[0] == "<" and fa[1] == V and fa[3]}
                    if not hs:
                        continue
                    wh = e.where(hc)
                    if wh is None or e.exit in e.reachable(succ_ok, avoid={wh[0]} | set(e.throws)) and wh[0] != succ_ok:
                        continue          # (the helper is not called on every accepting path)
                    B = sorted(hs)[0]
                    exits_ok = all(find_fact(eh.facts_at_end(xb, eh.exit) or set(), "<", A=V, B=B, truth=True) for xb in eh.normal_exits())
                    if exits_ok:
                        rec["ok"].append("%s < %s when %s() returns" % (V, B, h.name))
                        done = True
                        break
                    sv = set()
                    for bb in eh.el:
                        br = eh.branch(bb)
                        if br is not None and V not in [x for fa in atom_facts(br[0], True) for x in (fa[1], fa[2])]:
                            sv |= {v for v in vars_of(br[0]) if v.startswith("@")}
                    st, txt = deferred_route(f, cfs, sv) if sv else ("?", "the condition under which %s() returns without the comparison was not recognised" % h.name)
                    if st == "ok":
                        rec["ok"].append("%s < %s in %s(), %s" % (V, B, h.name, txt))
                    elif st == "bad":
                        rec["probs"].append("the parsed index `%s` is compared with %s only conditionally (in %s()): %s" % (V, B, h.name, txt))
                    else:
                        rec["unk"].append("`%s` is compared with %s in %s() only conditionally and the deferred route was not followed: %s" % (V, B, h.name, txt))
                    done = True
                    break
            if done:
                continue
            for B in sorted(strict):
                bad = passes_check(e, succ_ok, ("<", V, B, True), b)
                if not bad:
                    rec["ok"].append("%s < %s on every accepting path" % (V, B))
                    done = True
                    break
            if done:
                continue
            if strict:
                # the comparison exists but some path goes round it: which condition lets it?
                B = sorted(strict)[0]
                skip_vars = set()
                for bb in e.el:
                    br = e.branch(bb)
                    if br is None:
                        continue
                    leafs = [fa for s_ in e.succ.get(bb, []) if s_ is not None for fa in e.edge_facts(bb, s_)]
                    if any(fa[0] == "<" and fa[1] == V and fa[2] == B for fa in leafs):
                        # the block(s) that decide whether this comparison is evaluated: `A && (V >= B)` -> predecessor branch on A
                        for pb in e.pred.get(bb, []):
                            pbr = e.branch(pb)
                            if pbr is not None and e.cfg.blocks[pb].get("term") in ("BinaryOperator", "IfStmt"):
                                skip_vars |= {v for v in vars_of(pbr[0]) if v.startswith("@")}
                if not skip_vars:
                    rec["unk"].append("`%s` is compared with %s, but not on every accepting path, and the condition that skips the comparison was not recognised" % (V, B))
                    continue
                st, txt = deferred_route(f, cfs, skip_vars)
                if st == "ok":
                    rec["ok"].append("%s < %s, %s" % (V, B, txt))
                elif st == "bad":
                    rec["probs"].append("the parsed index `%s` is compared with %s only conditionally: %s" % (V, B, txt))
                else:
                    rec["unk"].append("`%s` is compared with %s only conditionally and the deferred route was not followed: %s" % (V, B, txt))
                continue
            if weak:
                B = sorted(weak)[0]
                rec["probs"].append("only `%s > %s` is rejected: `%s == %s` (one past the last entity) is stored in %s" % (V, B, V, B, cell or handed))
                continue
            oth = suspects(W, e, None, vars_of(tgt), anywhere=True)
            if oth:
                rec["unk"].append("`%s` is not seen compared with an upper bound, but %s may enforce one" % (V, oth))
                continue
            rec["probs"].append("the parsed index `%s` is stored in %s and the line is accepted without any comparison with an upper bound (the sibling parsers reject "
                                "\"Index out of bounds\"): whatever later indexes with it reads or writes out of range" % (V, cell or handed))
    for key, rec in sorted(seen.items()):
        if rec["probs"]:
            ck.ob(rule, key, False, "; ".join(sorted(set(rec["probs"]))[:2]), rec["fn"].file, rec["line"])
        elif rec["unk"]:
            undecided(ck, rule, key, "; ".join(sorted(set(rec["unk"]))[:2]))
        else:
            ck.ob(rule, key, True, "; ".join(sorted(set(rec["ok"]))[:2]), rec["fn"].file, rec["line"])


def rule_deduct_precondition(ck, W, facts):
    rule = "E7.deduct-precondition"
    seen = {}
    for f in facts.functions:
        if f.tk == "pattern" or f.cfg is None or not re.search(r"mesh_file_reader\.hpp$", f.file or ""):
            continue
        for n in f.nodes():
            if not (n.get("k") == "MCall" and n.get("n") == "deduct_topology" and re.match(r"FEAT::Geometry::MeshPart<", n.get("ccls") or "") and len(n.get("a", [])) == 1):
                continue
            key = "%s::%s/deduct_topology" % (short(f.cls or "?"), f.name)
            rec = seen.setdefault(key, {"probs": [], "unk": [], "ok": [], "fn": f, "line": n.get("l")})
            part = root_var(n.get("obj"))
            topo = norm(n["a"][0])
            topo_alt = norm(strip(n["a"][0])["e"]) if strip(n["a"][0]).get("k") == "Un" and strip(n["a"][0]).get("op") == "*" else None
            e = W.ecfg(f)
            fs = e.facts_at(n) or set()

            def relates(txt):
                return part is not None and re.search(r"(?<![A-Za-z0-9_])%s(?![A-Za-z0-9_])" % re.escape(part), txt) and (topo in txt or (topo_alt and topo_alt in txt))
            hit = [fa for fa in fs if fa[0] == "b" and fa[3] and relates(fa[1])]
            if hit:
                rec["ok"].append("dominated by `%s`" % hit[0][1][:90])
                continue
            # a helper that throws, called on every path before the call
            cands = {}
            for x in f.nodes():
                if x.get("k") in ("MCall", "Call") and x is not n and "i" in x and relates(norm(x)) and not (x.get("callee") or "").startswith("std::"):
                    cands[x["i"]] = x
            w_n = e.where(n)
            dom = []
            for i_, x in cands.items():
                w = e.where(x)
                if w is None or w_n is None:
                    continue
                # x dominates n: n unreachable from the entry when x's block is avoided (or same block, earlier)
                if (w[0] == w_n[0] and (w[1] or 0) < (w_n[1] or 0)) or (w[0] != w_n[0] and w_n[0] not in e.reachable(avoid={w[0]})):
                    dom.append(x)
            verdict = None
            for x in dom:
                g = W.resolve(x, f)
                if g is None or g.body is None:
                    verdict = verdict or ("?", "%s is called before, but its body is not available" % (x.get("n") or x.get("callee")))
                elif any(y.get("k") == "Throw" for y in g.nodes()):
                    verdict = ("ok", "dominated by %s(), which can reject" % g.name)
                    break
                else:
                    verdict = verdict or ("?", "%s() is called before with the part and the topology, but its result is not branched on and it does not throw" % g.name)
            if verdict and verdict[0] == "ok":
                rec["ok"].append(verdict[1])
            elif verdict:
                rec["unk"].append(verdict[1])
            else:
                rec["probs"].append("%s->deduct_topology(%s) (line %s) is reached without any check that relates the target sets of %s to %s: a mapped entity whose vertices "
                                    "are not all in the vertex target set makes fill_ish store its not-found marker as a vertex index" % (part, topo, n.get("l"), part, topo))
    for key, rec in sorted(seen.items()):
        if rec["probs"]:
            ck.ob(rule, key, False, "; ".join(sorted(set(rec["probs"]))[:2]), rec["fn"].file, rec["line"])
        elif rec["unk"]:
            undecided(ck, rule, key, "; ".join(sorted(set(rec["unk"]))[:2]))
        else:
            ck.ob(rule, key, True, "; ".join(sorted(set(rec["ok"]))[:2]), rec["fn"].file, rec["line"])


def rule_dimension_coverage(ck, W, facts):
    rule = "E12.dimension-coverage"
    fam = {}
    for f in facts.functions:
        if f.tk == "pattern" or f.body is None or not f.cls or not re.search(r"mesh_file_reader\.hpp$", f.file or ""):
            continue
        m = re.match(r"(.*)<(FEAT::Shape::\w+<(\d+)>), (-?\d+)>$", f.cls)
        if not m:
            continue
        fam.setdefault((m.group(1), f.name, m.group(2), int(m.group(3))), []).append((int(m.group(4)), f))
    for (base, name, shape, n), members in sorted(fam.items()):
        recursive = any(x.get("k") in ("Call", "MCall") and (x.get("callee") or "").rsplit("::", 1)[-1] == name and x.get("ccls") and strip_targs(x["ccls"]) == base and x["ccls"] != g.cls
                        for _, g in members for x in g.nodes())
        if not recursive:
            continue
        work = {}
        other = []
        for d, g in members:
            for x in g.nodes():
                if x.get("k") == "MCall" and x.get("n") in SET_ACCESSORS and re.match(r"FEAT::Geometry::(IndexSetHolder|TargetSetHolder)<", x.get("ccls") or ""):
                    mm = re.match(r"<(-?\d+)", targs_of(x.get("cfull")))
                    if mm:
                        work.setdefault(x["n"], set()).add(int(mm.group(1)))
                        if int(mm.group(1)) != d:
                            other.append((d, int(mm.group(1))))
        key = "%s<%s>::%s" % (short(base), shape.replace("FEAT::Shape::", ""), name)
        f0 = sorted(members, key=lambda t: -t[0])[0][1]
        if not work:
            undecided(ck, rule, key, "recursive over the dimension, but no member touches a target / index set accessor: the work per dimension is not recognised")
            continue
        probs = []
        for acc, dims in sorted(work.items()):
            want = set(range(0 if acc == "get_target_set" else 1, n + 1))
            miss = sorted(want - dims)
            if miss:
                term = sorted(d for d, g in members if not any(x.get("k") == "MCall" and x.get("n") in SET_ACCESSORS for x in g.nodes()))
                probs.append("no member of the family touches %s<%s>: dimension%s %s of %s %s never visited (instantiated members: dim %s; members that do nothing: dim %s)" % (
                    acc, ",".join(map(str, miss)), "s" if len(miss) > 1 else "", ",".join(map(str, miss)), shape.replace("FEAT::Shape::", ""), "are" if len(miss) > 1 else "is",
                    sorted(d for d, _ in members), term))
        ck.ob(rule, key, not probs, "; ".join(probs) or "dimensions %s" % "; ".join("%s: %s" % (a, sorted(ds)) for a, ds in sorted(work.items())), f0.file, f0.line)


def rule_callee_precondition(ck, W, facts):
    rule = "E7.callee-precondition"
    cfs_all = class_functions(facts)
    seen = {}

    def lit(sname):
        try:
            return float(sname)
        except (TypeError, ValueError):
            return None
    for f in reader_functions(facts):
        pv = None
        e = None
        for nw, ccls_, cargs, g in constructions(f, cfs_all):
            if g is None or g.body is None:
                continue
            con = {"ccls": ccls_, "a": cargs}
            if pv is None:
                pv = parsed_vars(f)
            # assertions of the constructor and of a constructor it delegates to with its parameters passed through unchanged
            asserts = [(asr, g, None) for asr in g.nodes()]
            for it in g.d.get("inits") or []:
                if it.get("delegating"):
                    call = strip(it.get("init")) or {}
                    h = [h_ for h_ in cfs_all.get(ccls_, []) if h_.d.get("decl") == call.get("cdecl") and h_.body is not None]
                    if h:
                        ren = {p_["n"]: strip(a)["n"] for p_, a in zip(h[0].params, call.get("a", [])) if strip(a) is not None and strip(a).get("k") == "Ref" and strip(a).get("dk") == "param"}
                        asserts += [(asr, h[0], ren) for asr in h[0].nodes()]
            for asr, gown, ren in asserts:
                if not (asr.get("k") == "Call" and asr.get("callee") == "FEAT::assertion" and asr.get("a")):
                    continue
                c = cmp_parts(asr["a"][0]) if strip(asr["a"][0]).get("k") in ("Bin", "OpCall") else None
                if c is None or c[0] not in ("<", ">", "<=", ">="):
                    continue
                op, l, r = c
                # parameter OP literal
                pl, pr = strip(l), strip(r)
                if pr.get("k") == "Ref" and pr.get("dk") == "param" and lit(norm(l)) is not None:
                    pl, pr, op = pr, pl, {"<": ">", ">": "<", "<=": ">=", ">=": "<="}[op]
                if not (pl.get("k") == "Ref" and pl.get("dk") == "param") or lit(norm(pr)) is None:
                    continue
                bnd = lit(norm(pr))
                pname = pl["n"] if ren is None else ren.get(pl["n"])
                pi = [i for i, p_ in enumerate(g.params) if p_.get("n") == pname]
                if not pi or pi[0] >= len(con.get("a", [])):
                    continue
                arg = strip(con["a"][pi[0]])
                if arg is None or arg.get("k") != "Ref" or arg.get("n") not in pv:
                    continue          # not a value that comes from the file
                X = norm(arg)
                e = e or W.ecfg(f)
                fs = e.facts_at(nw) or set()
                lower, upper = [], []      # (value, strict)
                for fa in fs:
                    if fa[0] != "<":
                        continue
                    if fa[1] == X and lit(fa[2]) is not None:
                        (upper if fa[3] else lower).append((lit(fa[2]), bool(fa[3])))          # X < c   /   not (X < c): X >= c
                    elif fa[2] == X and lit(fa[1]) is not None:
                        (lower if fa[3] else upper).append((lit(fa[1]), bool(fa[3])))          # c < X   /   not (c < X): X <= c
                if op in (">", ">="):
                    ok = any(v > bnd or (v == bnd and (st or op == ">=")) for v, st in lower)
                else:
                    ok = any(v < bnd or (v == bnd and (st or op == "<=")) for v, st in upper)
                key = "%s::%s/%s %s %s" % (short(f.cls), f.name, pl["n"], op, norm(pr))
                rec = seen.setdefault(key, {"probs": [], "fn": f, "line": nw.get("l"), "n": 0})
                rec["n"] += 1
                if not ok:
                    have = ["%s %s %g" % (X, ">" if st else ">=", v) for v, st in lower] + ["%s %s %g" % (X, "<" if st else "<=", v) for v, st in upper]
                    rec["probs"].append("%s hands the parsed value `%s` to %s, whose constructor asserts `%s %s %s` (XASSERT -> abort), but the rejections in front of the call "
                                        "only establish %s: the boundary value passes the parser and aborts the process instead of raising Xml::*Error" % (
                                            f.name, X, short(con["ccls"]), pl["n"], op, norm(pr), have or "nothing about it"))
    for key, rec in sorted(seen.items()):
        ck.ob(rule, key, not rec["probs"], "; ".join(sorted(set(rec["probs"]))[:2]) or "implied by the dominating rejections (%d instantiation(s))" % rec["n"], rec["fn"].file, rec["line"])


# -------------------------------------------------------------------------------------------------
# E12.carrier-transfer: copy / move operations of the classes that carry parsed data to the writer
# -------------------------------------------------------------------------------------------------

CARRIER_FILES = featlib.repo_path("kernel/geometry/(partition_set|attribute_set|index_set|target_set|vertex_set|mesh_part|conformal_mesh|mesh_atlas)\\.hpp")


def _unwrap_value(e):
    """std::move / std::forward / casts / copy constructions around an expression"""
    e = strip(e)
    for _ in range(8):
        if e is None:
            return None
        if e.get("k") == "Call" and e.get("callee") in ("std::move", "std::forward") and len(e.get("a", [])) == 1:
            e = strip(e["a"][0])
        elif e.get("k") in ("Construct", "TempObj") and len(e.get("a", [])) == 1:
            e = strip(e["a"][0])
        else:
            break
    return e


def _getter_fields(g):
    """fields of the object a parameter-less const member function reads for its single returned value"""
    if g.body is None or g.params:
        return set()
    rets = [x for x in g.nodes() if x.get("k") == "Return"]
    if len(rets) != 1 or any(x.get("k") in ("Assign", "For", "While", "If") for x in g.nodes()):
        return set()
    return {v[1:] for v in vars_of(rets[0].get("e")) if v.startswith("@")}


def rule_carrier_transfer(ck, W, facts):
    rule = "E12.carrier-transfer"
    try:
        cf = featlib.extract("tu/c11_meshio.cpp", files=CARRIER_FILES)
    except (featlib.AnalysisBroken, OSError) as ex:
        ck.incomplete(rule, "carrier classes not extracted: %s" % str(ex)[:120])
        return
    ck.tu(cf)
    by_cls, by_decl = {}, {}
    for g in cf.functions:
        if g.tk == "pattern" or not g.cls:
            continue
        by_cls.setdefault(g.cls, []).append(g)
        if g.d.get("decl") is not None:
            by_decl[g.d["decl"]] = g
    # 1. members behind the getters the writer calls
    read = {}
    for f in facts.functions:
        if f.tk == "pattern" or f.body is None or not re.search(r"mesh_file_writer\.hpp$", f.file):
            continue
        for n in f.nodes():
            if n.get("k") == "MCall" and n.get("ccls") in by_cls and not n.get("a"):
                for g in by_cls[n["ccls"]]:
                    if g.name == n.get("n") and g.d.get("const") and not g.params:
                        fl = _getter_fields(g)
                        if fl:
                            read.setdefault(n["ccls"], {}).setdefault(n.get("n"), set()).update(fl)

    def is_other(e, other):
        e = _unwrap_value(e)
        return e is not None and e.get("k") == "Ref" and e.get("n") == other

    def source_members(e, other, cls):
        """members of `other` an expression reads (fields and getters of the class)"""
        out = set()
        for x in walk(e):
            if x.get("k") == "Member" and x.get("field") and x.get("b") is not None and is_other(x["b"], other):
                out.add(x["n"])
            elif x.get("k") == "MCall" and x.get("obj") is not None and is_other(x["obj"], other) and not x.get("a"):
                for g in by_cls.get(cls, []):
                    if g.name == x.get("n") and not g.params:
                        out |= _getter_fields(g)
        return out

    def substitute(e, bind):
        import copy as _copy
        c = _copy.deepcopy(e)
        if c.get("k") == "Ref" and c.get("d") in bind:
            return bind[c["d"]]
        for x in walk(c):
            for key_, ch in list(x.items()):
                if isinstance(ch, dict) and ch.get("k") == "Ref" and ch.get("d") in bind:
                    x[key_] = bind[ch["d"]]
                elif isinstance(ch, list):
                    for i_, y in enumerate(ch):
                        if isinstance(y, dict) and y.get("k") == "Ref" and y.get("d") in bind:
                            ch[i_] = bind[y["d"]]
        return c

    def ctor_inits(f, depth=0):
        """{member: initialiser expression} of a constructor, delegation followed (parameters of the target replaced by the arguments)"""
        out, unknown = {}, []
        for it in f.d.get("inits") or []:
            if it.get("member"):
                out[it["member"]] = it.get("init")
            elif it.get("delegating"):
                call = strip(it.get("init"))
                h = by_decl.get((call or {}).get("cdecl"))
                if h is None or depth > 2 or h is f:
                    unknown.append("delegation to a constructor that was not resolved")
                    continue
                bind = {p_["d"]: a for p_, a in zip(h.params, call.get("a", [])) if "d" in p_}
                sub, unk = ctor_inits(h, depth + 1)
                unknown += unk
                for m, e in sub.items():
                    out[m] = substitute(e, bind) if e is not None else None
                # assignments in the body of the target constructor
                for m, e in body_assignments(h)[0].items():
                    out[m] = substitute(e[-1], bind)
        return out, unknown

    def body_assignments(f):
        """({member: [rhs expressions]}, unknown constructs) of the statements of a copy-like operation"""
        out, unknown = {}, []
        for n in f.nodes():
            k = n.get("k")
            lhs = rhs = None
            if k == "Assign" and n.get("op") == "=":
                lhs, rhs = n["lhs"], n["rhs"]
            elif k == "OpCall" and n.get("op") == "=" and len(n.get("a", [])) == 2:
                lhs, rhs = n["a"][0], n["a"][1]
            elif k == "Call" and n.get("callee") == "std::swap" and len(n.get("a", [])) == 2:
                for x, y in ((n["a"][0], n["a"][1]), (n["a"][1], n["a"][0])):
                    r = root_var(x)
                    if r and is_this_field_root(x, r):
                        out.setdefault(r, []).append(y)
                continue
            elif k == "MCall" and n.get("obj") is not None and not n.get("cconst") and n.get("a"):
                r = root_var(n["obj"])
                if r and is_this_field_root(n["obj"], r):
                    for a in n["a"]:
                        out.setdefault(r, []).append(a)        # _m.swap(other._m), _m.clone(other._m), _m.assign(...)
                    continue
            if lhs is not None:
                r = root_var(lhs)
                if r and is_this_field_root(lhs, r):
                    out.setdefault(r, []).append(rhs)
                continue
            if k in ("MCall", "Call") and any(strip(a) is not None and strip(a).get("k") == "Ref" and strip(a).get("dk") == "param" for a in n.get("a", [])) \
               and not MODELLED_CALLEES.match(n.get("callee") or "") and n.get("callee") not in ("std::move", "std::forward", "std::swap"):
                own = k == "MCall" and (n.get("obj") is None or strip(n["obj"]).get("k") == "This")
                if own or k == "Call":
                    unknown.append("`%s` receives the source object" % render(n)[:50])
        return out, unknown

    for cls in sorted(read):
        fields = sorted(set().union(*read[cls].values()))
        ops = []
        for f in by_cls[cls]:
            if f.body is None or len(f.params) != 1:
                continue
            t = (f.type(f.params[0]["t"]) or "").replace("const ", "").strip()
            base_t = re.sub(r"\s*&&?$", "", t)
            same = base_t == cls or strip_targs(base_t).rsplit("::", 1)[-1] == strip_targs(cls).rsplit("::", 1)[-1]
            if not same or not t.endswith("&"):
                continue
            if f.d.get("ctor"):
                ops.append((f, "move-ctor" if t.endswith("&&") else "copy-ctor"))
            elif f.name == "operator=":
                ops.append((f, "move-assign" if t.endswith("&&") else "copy-assign"))
        for kind in ("move-ctor", "move-assign"):
            if not any(k_ == kind for _, k_ in ops):
                # no hand-written body: implicitly defined, defaulted (memberwise transfer of every member) or deleted (no moved object exists)
                any_fn = by_cls[cls][0]
                for m in fields:
                    ck.ob(rule, "%s::%s/%s" % (cls.replace("FEAT::Geometry::", "").replace("FEAT::", ""), kind, m), True,
                          "no hand-written %s: memberwise" % kind, any_fn.file, any_fn.line, trivial=True)
        for f, kind in ops:
            other = f.params[0].get("n")
            if not other:
                ck.incomplete(rule, "%s::%s: unnamed source parameter" % (short(cls), kind))
                continue
            inits, unk1 = ctor_inits(f) if f.d.get("ctor") else ({}, [])
            body, unk2 = body_assignments(f)
            unknown = unk1 + unk2
            for m in fields:
                key = "%s::%s/%s" % (cls.replace("FEAT::Geometry::", "").replace("FEAT::", ""), kind, m)
                exprs = ([inits[m]] if inits.get(m) is not None else []) + body.get(m, [])
                srcs = set()
                for e in exprs:
                    srcs |= source_members(e, other, cls)
                whole = any(is_other(e, other) for e in exprs)
                if m in srcs or whole:
                    ck.ob(rule, key, True, "%s <- %s.%s" % (m, other, m), f.file, f.line)
                elif unknown:
                    undecided(ck, rule, key, "%s is not seen taken over from the source, but %s" % (m, "; ".join(unknown[:2])))
                elif exprs:
                    ck.ob(rule, key, False, "%s of the %s is defined from `%s`, not from %s.%s: the writer emits %s through %s, so a %s object loses the value that was parsed" % (
                        m, "new object" if "ctor" in kind else "target", "; ".join(render(e)[:40] for e in exprs[:2]), other, m, m,
                        "/".join(sorted(g_ for g_, fl in read[cls].items() if m in fl)) + "()", "moved" if "move" in kind else "copied"), f.file, f.line)
                else:
                    ck.ob(rule, key, False, "%s is not taken over from %s (it keeps its %s): the writer emits it through %s, so a %s object loses the value that was parsed" % (
                        m, other, "default value" if "ctor" in kind else "old value", "/".join(sorted(g_ for g_, fl in read[cls].items() if m in fl)) + "()",
                        "moved" if "move" in kind else "copied"), f.file, f.line)


# -------------------------------------------------------------------------------------------------
# E12.buffer-layout: Graph::serialize  <->  Graph(const std::vector<char>&)   (cursor form)
# -------------------------------------------------------------------------------------------------

class CursorInterp:
    """abstract interpretation of a (de)serialiser that walks a u64 cursor over a byte buffer: header slots
    `p[k]`, segments `for(i..n) p[i] <-> field[i]`, cursor advances `p += n`.  Lengths are sympy expressions over
    N_<container> (sizes), F_<field> (scalar fields) and S<k> (header slots, reader side)."""

    def __init__(self, W, fn, role, env=None):
        """env = None: symbolic general case (emptiness early-outs skipped, `c.empty() ? a : b` -> b).
        env = {symbol name: int}: concrete state; every condition is evaluated, early-outs are taken."""
        import sympy
        self.sp = sympy
        self.W = W
        self.fn = fn
        self.role = role
        self.env = env
        self.returned = False
        self.ptr = {}
        self.val = {}
        self.slots = {}        # writer: slot offset -> expr ; reader: expectations slot -> expr
        self.slot_nodes = {}
        self.sizes = {}        # reader: container field -> expr
        self.fields = {}       # reader: scalar field -> expr
        self.segs = []         # (start, len, field, node)
        self.bytes = None      # writer: allocated byte count
        self.unknown = []
        self.loops = []
        self.buffer = None

    def S(self, name):
        if self.env is not None and name in self.env:
            return self.sp.Integer(self.env[name])
        return self.sp.Symbol(name, integer=True, nonnegative=True)

    def truth(self, c):
        """concrete value of a condition (None if it cannot be decided)"""
        c = strip(c)
        try:
            if c.get("k") == "Un" and c.get("op") == "!":
                t = self.truth(c["e"])
                return None if t is None else (not t)
            if c.get("k") == "Bin" and c["op"] in ("&&", "||"):
                a, b = self.truth(c["lhs"]), self.truth(c["rhs"])
                if a is None or b is None:
                    return None
                return (a and b) if c["op"] == "&&" else (a or b)
            if c.get("k") == "MCall" and c.get("n") == "empty" and not c.get("a"):
                sz = self.sym({"k": "MCall", "n": "size", "obj": c.get("obj"), "a": []})
                return bool(sz == 0) if sz.is_Integer else None
            p = cmp_parts(c)
            if p is not None:
                a, b = self.sym(p[1]), self.sym(p[2])
                if a.is_Integer and b.is_Integer:
                    a, b = int(a), int(b)
                    return {"<": a < b, ">": a > b, "<=": a <= b, ">=": a >= b, "==": a == b, "!=": a != b}[p[0]]
        except Unknown:
            return None
        return None

    def sym(self, n):
        sp = self.sp
        n = strip(n)
        if n is None:
            raise Unknown("empty expression")
        k = n.get("k")
        if k == "Int":
            return sp.Integer(int(n["v"]))
        if k == "Ref":
            if n.get("dk") in ("local", "param"):
                if n["n"] in self.val:
                    return self.val[n["n"]]
                return self.S("L_" + n["n"])
            if "v" in n:
                return sp.Integer(int(n["v"]))
            return self.S("G_" + n["n"])
        if k == "Member" and is_this_field(n):
            if self.role == "r" and n["n"] in self.fields:
                return self.fields[n["n"]]
            return self.S("F_" + n["n"])
        if k == "Bin" and n["op"] in ("+", "-", "*"):
            a, b = self.sym(n["lhs"]), self.sym(n["rhs"])
            return a + b if n["op"] == "+" else (a - b if n["op"] == "-" else a * b)
        if k == "Index":
            b = strip(n["b"])
            if b.get("k") == "Ref" and b["n"] in self.ptr and self.role == "r":
                off = self.ptr[b["n"]] + self.sym(n["idx"])
                if off.is_Integer:
                    return self.S("S%d" % int(off))
            raise Unknown("subscript " + render(n))
        if k == "MCall":
            o = n.get("obj")
            if n.get("n") == "size" and not n.get("a"):
                so = strip(o)
                if is_this_field(so):
                    if self.role == "r" and so["n"] in self.sizes:
                        return self.sizes[so["n"]]
                    if self.role == "r" and self.env is not None:
                        return self.sp.Integer(0)       # member containers start empty in the deserialising constructor
                    return self.S("N_" + so["n"])
                if so.get("k") == "Ref":
                    return self.S("BYTES") if so["n"] == self.buffer else self.S("N_" + so["n"])
            if o is None or strip(o).get("k") == "This":
                g = self.W.fns.get(n.get("cfull"))
                if g is not None and not n.get("a"):
                    rets = [x for x in g.nodes() if x.get("k") == "Return"]
                    if len(rets) == 1:
                        return self.sym_general(rets[0].get("e"))
            raise Unknown("call " + render(n)[:60])
        if k == "Cond":
            return self.sym_general(n)
        raise Unknown(render(n)[:60])

    def sym_general(self, n):
        """value in the general (non-empty) case: `c.empty() ? a : b` -> b"""
        n = strip(n)
        if n.get("k") == "Cond":
            if self.env is not None:
                t = self.truth(n["c"])
                if t is None:
                    raise Unknown("conditional " + render(n)[:60])
                return self.sym(n["then"] if t else n["else"])
            c = strip(n["c"])
            if c.get("k") == "MCall" and c.get("n") == "empty":
                return self.sym(n["else"])
            raise Unknown("conditional " + render(n)[:60])
        return self.sym(n)

    def run(self):
        for p in self.fn.params:
            if "std::vector<char>" in (self.fn.type(p["t"]) or ""):
                self.buffer = p["n"]
        self.block(self.fn.body)

    def block(self, n):
        if n is None or self.returned:
            return
        k = n.get("k")
        try:
            if k == "Block":
                for s in n.get("s", []):
                    self.block(s)
            elif k == "Decl":
                for v in n.get("vars", []):
                    self.decl(v)
            elif k == "Return":
                if self.env is not None:
                    self.returned = True
            elif k == "If" and self.env is not None:
                t = self.truth(n["c"])
                if t is None:
                    raise Unknown("condition `%s` undecided in the concrete state" % render(n["c"])[:60])
                self.block(n.get("then") if t else n.get("else"))
            elif k == "If":
                th = n.get("then")
                stm = th.get("s", []) if th is not None and th.get("k") == "Block" else [th]
                if len(stm) == 1 and stm[0] is not None and stm[0].get("k") == "Return":
                    return          # early-out for degenerate objects: the general case continues
                self.block(th)
                self.block(n.get("else"))
            elif k == "For":
                lp = self.loop_of(n)
                if lp is None:
                    self.unknown.append("loop at line %s not of the form for(i=0; i<n; ++i)" % n.get("l"))
                    return
                self.loops.append(lp)
                self.block(n.get("body"))
                self.loops.pop()
            elif k == "While":
                # T i(0); while(i < n) { ...; ++i; }
                c, body = strip(n.get("c")), n.get("body")
                ok = c is not None and c.get("k") == "Bin" and c["op"] in ("<", "<=", "!=") and strip(c["lhs"]).get("k") == "Ref" \
                    and body is not None and body.get("k") == "Block" and body.get("s")
                if ok:
                    iv = strip(c["lhs"])["n"]
                    ok = self.val.get(iv) == 0 and _unit_step(body["s"][-1], iv) == 1 and not _modifies_local({"k": "Block", "s": body["s"][:-1]}, iv) \
                        and not any(x.get("k") in ("Continue", "Break") for x in walk(body))
                if not ok:
                    self.unknown.append("loop at line %s not of the form `i = 0; while(i < n) { ...; ++i; }`" % n.get("l"))
                    return
                N = self.sym(c["rhs"])
                self.val.pop(iv, None)
                self.loops.append((iv, N + (1 if c["op"] == "<=" else 0)))
                self.block({"k": "Block", "s": body["s"][:-1]})
                self.loops.pop()
                self.val[iv] = N
            elif k in ("Do", "ForRange", "Switch", "Try"):
                self.unknown.append("statement `%s` at line %s is not modelled" % (k, n.get("l")))
            elif k == "Call" and n.get("callee") in ("std::copy", "std::copy_n") and len(n.get("a", [])) == 3:
                self.copy_call(n)
            elif k == "Call" and n.get("callee") == "std::transform" and len(n.get("a", [])) == 4 and self.is_conversion(n["a"][3]):
                # element-wise copy with a value conversion (`[](u64 t) { return Index(t); }`): the layout is that of std::copy
                self.copy_call(dict(n, callee="std::copy", a=n["a"][:3]))
            elif k == "Un" and n.get("op") in ("++", "--") and strip(n["e"]).get("k") == "Ref" and strip(n["e"])["n"] in self.ptr:
                self.unknown.append("line %s: cursor `%s` advanced by %s outside a modelled form" % (n.get("l"), strip(n["e"])["n"], n.get("op")))
            elif k in ("Call", "MCall", "OpCall") and not (k == "Call" and n.get("callee") == "FEAT::assertion") \
                    and not (k == "OpCall" and n.get("op") == "=" and len(n.get("a", [])) == 2):
                # a call that receives the cursor / the buffer may read or write the payload in a way the layout comparison misses
                names = {x.get("n") for x in walk(n) if x.get("k") == "Ref" and x.get("dk") in ("local", "param")}
                if names & (set(self.ptr) | ({self.buffer} if self.buffer else set())) and not (k == "MCall" and n.get("n") in ("size", "data", "empty")):
                    self.unknown.append("line %s: `%s` uses the cursor / buffer in a way that is not modelled" % (n.get("l"), render(n)[:60]))
            elif k == "Assign":
                self.assign(n["lhs"], n["rhs"], n.get("op"), n)
            elif k == "OpCall" and n.get("op") == "=" and len(n.get("a", [])) == 2:
                self.assign(n["a"][0], n["a"][1], "=", n)
            elif k == "Call" and n.get("callee") == "FEAT::assertion" and self.role == "r":
                c = cmp_parts(n["a"][0])
                if c and c[0] == "==":
                    for x, y in ((c[1], c[2]), (c[2], c[1])):
                        sx = strip(x)
                        if sx.get("k") == "Index" and strip(sx["b"]).get("k") == "Ref" and strip(sx["b"])["n"] in self.ptr:
                            off = self.ptr[strip(sx["b"])["n"]] + self.sym(sx["idx"])
                            self.slots[int(off)] = self.sym(y)
                            self.slot_nodes[int(off)] = n
        except Unknown as ex:
            self.unknown.append("line %s: %s" % (n.get("l"), ex))

    def is_conversion(self, fnode):
        """functor that returns its single argument, possibly through value conversions: a lambda (directly or in a never
        re-assigned local) whose body is `return T(param);`"""
        x = strip(fnode)
        for _ in range(3):
            if x is None:
                return False
            if x.get("k") == "Ref" and x.get("dk") == "local":
                if any((y.get("k") == "Assign" and root_var(y["lhs"]) == x["n"]) for y in self.fn.nodes()):
                    return False
                x = local_init(self.fn, x["n"])
            elif x.get("k") in ("Construct", "TempObj", "Cast") and (x.get("e") is not None or len(x.get("a", [])) == 1):
                x = strip(x["e"] if x.get("e") is not None else x["a"][0])
            else:
                break
        if x is None or x.get("k") != "Lambda" or x.get("captures"):
            return False
        body = x.get("body") or {}
        st = body.get("s", []) if body.get("k") == "Block" else [body]
        if len(st) != 1 or st[0].get("k") != "Return":
            return False
        e = strip(st[0].get("e"))
        while e is not None and e.get("k") in ("Construct", "TempObj") and len(e.get("a", [])) == 1:
            e = strip(e["a"][0])
        return e is not None and e.get("k") == "Ref" and e.get("dk") == "param"

    def copy_call(self, n):
        """std::copy(first, last, dest) / std::copy_n(first, count, dest) between a member container and the cursor"""
        a0, a1, a2 = [strip(x) for x in n["a"]]

        def whole(x, names):
            return x.get("k") == "MCall" and x.get("n") in names and is_this_field(x.get("obj")) and not x.get("a")

        def cursor(x):
            """(pointer name, extra offset) of `p` / `p + k`"""
            if x.get("k") == "Ref" and x["n"] in self.ptr:
                return x["n"], self.sp.Integer(0)
            if x.get("k") == "Bin" and x.get("op") == "+" and strip(x["lhs"]).get("k") == "Ref" and strip(x["lhs"])["n"] in self.ptr:
                return strip(x["lhs"])["n"], self.sym(x["rhs"])
            return None
        if n.get("callee") == "std::copy" and whole(a0, ("begin", "cbegin")) and whole(a1, ("end", "cend")) and strip(a0["obj"])["n"] == strip(a1["obj"])["n"] and cursor(a2):
            fld = strip(a0["obj"])["n"]
            P, off = cursor(a2)
            self.segs.append((self.ptr[P] + off, self.sym({"k": "MCall", "n": "size", "obj": a0["obj"], "a": []}), fld, n))
            return
        if whole(a2, ("begin",)) and cursor(a0):
            fld = strip(a2["obj"])["n"]
            P, off = cursor(a0)
            if n.get("callee") == "std::copy_n":
                ln = self.sym(n["a"][1])
            else:
                c1 = cursor(a1)
                if c1 is None or c1[0] != P:
                    raise Unknown("`%s`: range end is not the same cursor plus a length" % render(n)[:60])
                ln = c1[1] - off
            self.segs.append((self.ptr[P] + off, ln, fld, n))
            return
        if n.get("callee") == "std::copy_n" and whole(a0, ("begin", "cbegin")) and cursor(a2):
            fld = strip(a0["obj"])["n"]
            P, off = cursor(a2)
            self.segs.append((self.ptr[P] + off, self.sym(n["a"][1]), fld, n))
            return
        raise Unknown("`%s` is not a copy between a whole member container and the cursor" % render(n)[:60])

    def loop_of(self, n):
        init, c, inc = n.get("init"), strip(n.get("c")), strip(n.get("inc"))
        if init is None or init.get("k") != "Decl" or len(init.get("vars", [])) != 1:
            return None
        v = init["vars"][0]
        if strip(v.get("init")) is None or strip(v["init"]).get("k") != "Int" or strip(v["init"])["v"] != "0":
            return None
        if c is None or c.get("k") != "Bin" or c["op"] not in ("<", "<=", "!=") or strip(c["lhs"]).get("k") != "Ref" or strip(c["lhs"])["n"] != v["n"]:
            return None
        if inc is None or _unit_step(inc, v["n"]) != 1:
            return None
        try:
            N = self.sym(c["rhs"])
        except Unknown:
            return None
        return (v["n"], N + (1 if c["op"] == "<=" else 0))

    def decl(self, v):
        init = v.get("init")
        if init is None:
            return
        raw = init
        s = strip(init)
        if raw.get("k") == "Cast" and raw.get("ck") == "reinterpret":
            s2 = strip(raw)
            if s2.get("k") == "MCall" and s2.get("n") == "data":
                self.ptr[v["n"]] = self.sp.Integer(0)
                o = strip(s2.get("obj"))
                if o.get("k") == "Ref":
                    self.buffer = o["n"]
                return
        if s.get("k") == "Un" and s.get("op") == "&":
            e = strip(s["e"])
            if e.get("k") == "Index" and strip(e["b"]).get("k") == "Ref" and strip(e["b"])["n"] in self.ptr:
                self.ptr[v["n"]] = self.ptr[strip(e["b"])["n"]] + self.sym(e["idx"])
                return
        if s.get("k") == "Bin" and s.get("op") == "+" and strip(s["lhs"]).get("k") == "Ref" and strip(s["lhs"])["n"] in self.ptr:
            self.ptr[v["n"]] = self.ptr[strip(s["lhs"])["n"]] + self.sym(s["rhs"])          # p = q + k
            return
        if s.get("k") == "Ref" and s["n"] in self.ptr:
            self.ptr[v["n"]] = self.ptr[s["n"]]
            return
        if s.get("k") in ("Construct",) and "std::vector<char>" in (s.get("ccls") or s.get("callee") or ""):
            if s.get("a"):
                self.bytes = self.sym(s["a"][0])
                self.buffer = v["n"]
            return
        if "*" in (self.fn.type(v.get("t")) or ""):
            self.unknown.append("pointer %s initialised by `%s`" % (v["n"], render(init)[:50]))
            return
        try:
            self.val[v["n"]] = self.sym(init)
        except Unknown:
            pass

    def assign(self, lhs, rhs, op, node):
        l = strip(lhs)
        if op == "+=" and l.get("k") == "Ref" and l["n"] in self.ptr:
            self.ptr[l["n"]] = self.ptr[l["n"]] + self.sym(rhs)
            return
        if op == "=" and l.get("k") == "Ref" and l["n"] in self.ptr:
            r = strip(rhs)
            if r.get("k") == "Bin" and r.get("op") == "+" and strip(r["lhs"]).get("k") == "Ref" and strip(r["lhs"])["n"] in self.ptr:
                self.ptr[l["n"]] = self.ptr[strip(r["lhs"])["n"]] + self.sym(r["rhs"])
                return
            raise Unknown("cursor `%s` re-assigned from `%s`" % (l["n"], render(rhs)[:40]))
        if op != "=":
            return
        loopvar = self.loops[-1][0] if self.loops else None
        # writer: p[k] = expr   /  p[i] = field[i]
        if l.get("k") == "Index" and strip(l["b"]).get("k") == "Ref" and strip(l["b"])["n"] in self.ptr:
            P = strip(l["b"])["n"]
            idx = strip(l["idx"])
            if idx.get("k") == "Ref" and idx["n"] == loopvar:
                r = strip(rhs)
                fld = root_var(r)
                ridx = None
                if r.get("k") == "OpCall" and r.get("op") == "[]":
                    ridx = strip(r["a"][1])
                if ridx is None or ridx.get("k") != "Ref" or ridx["n"] != loopvar:
                    self.unknown.append("line %s: segment source `%s` is not indexed by the loop variable" % (node.get("l"), render(r)[:40]))
                self.segs.append((self.ptr[P], self.loops[-1][1], fld, node))
            else:
                off = self.ptr[P] + self.sym(idx)
                if not off.is_Integer:
                    raise Unknown("header slot offset %s not constant" % off)
                self.slots[int(off)] = self.sym(rhs)
                self.slot_nodes[int(off)] = node
            return
        # reader: field[i] = p[i]
        if l.get("k") == "OpCall" and l.get("op") == "[]" and is_this_field(l["a"][0]):
            r = strip(rhs)
            if r.get("k") == "Index" and strip(r["b"]).get("k") == "Ref" and strip(r["b"])["n"] in self.ptr:
                idx, ridx = strip(l["a"][1]), strip(r["idx"])
                if loopvar and idx.get("k") == "Ref" and idx["n"] == loopvar and ridx.get("k") == "Ref" and ridx["n"] == loopvar:
                    self.segs.append((self.ptr[strip(r["b"])["n"]], self.loops[-1][1], strip(l["a"][0])["n"], node))
                    return
            self.unknown.append("line %s: store `%s` not understood" % (node.get("l"), render(node)[:50]))
            return
        if is_this_field(l):
            r = strip(rhs)
            if r.get("k") in ("Construct", "TempObj") and re.match(r"std::vector<", r.get("ccls") or ""):
                args = [a for a in r.get("a", []) if "allocator" not in (strip(a).get("ccls") or "")]
                if len(args) == 1:
                    self.sizes[l["n"]] = self.sym(args[0])
                    return
            if self.role == "r":
                try:
                    self.fields[l["n"]] = self.sym(rhs)
                except Unknown:
                    pass


def rule_buffer_layout(ck, W, gfacts):
    ser = [f for f in gfacts.functions if f.qn == "FEAT::Adjacency::Graph::serialize"]
    des = [f for f in gfacts.functions if f.qn == "FEAT::Adjacency::Graph::Graph" and len(f.params) == 1 and "std::vector<char>" in (f.type(f.params[0]["t"]) or "")]
    if not ser or not des:
        ck.incomplete("E12.buffer-layout", "Graph::serialize / Graph(const std::vector<char>&) not found")
        return
    import sympy as sp
    w = CursorInterp(W, ser[0], "w")
    w.run()
    r = CursorInterp(W, des[0], "r")
    r.run()
    for u in w.unknown:
        ck.incomplete("E12.buffer-layout", "Graph::serialize: " + u)
    for u in r.unknown:
        ck.incomplete("E12.buffer-layout", "Graph(buffer): " + u)
    if w.unknown or r.unknown:
        return       # a construct that was not understood may write / read the part the comparison would report as missing
    fw, fr = ser[0], des[0]
    sub = {sp.Symbol("S%d" % k, integer=True, nonnegative=True): e for k, e in w.slots.items()}
    if w.bytes is not None:
        sub[sp.Symbol("BYTES", integer=True, nonnegative=True)] = w.bytes

    def eq(a, b):
        return sp.simplify(sp.expand(a - b)) == 0

    # A. every container / scalar field the reader rebuilds gets back the writer's value
    for c, e in sorted(r.sizes.items()):
        back = sp.expand(e.subs(sub))
        want = sp.Symbol("N_" + c, integer=True, nonnegative=True)
        ck.ob("E12.buffer-layout", "Graph/size:%s" % c, eq(back, want),
              "reader allocates %s entries = %s under the writer's header; the writer stored %s" % (e, back, want), fr.file, fr.line)
    for f_, e in sorted(r.fields.items()):
        if not e.free_symbols or not any(str(s).startswith("S") for s in e.free_symbols):
            continue
        back = sp.expand(e.subs(sub))
        want = sp.Symbol("F_" + f_, integer=True, nonnegative=True)
        ck.ob("E12.buffer-layout", "Graph/field:%s" % f_, eq(back, want), "reader sets %s = %s = %s under the writer's header" % (f_, e, back), fr.file, fr.line)
    # expectations of the reader on header slots (magic, byte size)
    for k, e in sorted(r.slots.items()):
        have = w.slots.get(k)
        ok = have is not None and eq(have, e.subs(sub))
        ck.ob("E12.buffer-layout", "Graph/expect:slot%d" % k, ok,
              "reader requires slot %d == %s, writer stores %s" % (k, e, have), fr.file, (r.slot_nodes.get(k) or {}).get("l"))
    # B. segments
    n = max(len(w.segs), len(r.segs))
    for i in range(n):
        if i >= len(w.segs) or i >= len(r.segs):
            ck.ob("E12.buffer-layout", "Graph/segment#%d" % (i + 1), False, "writer has %d payload segments, reader %d" % (len(w.segs), len(r.segs)), fr.file, fr.line)
            continue
        ws, rs = w.segs[i], r.segs[i]
        rstart, rlen = sp.expand(rs[0].subs(sub)), sp.expand(rs[1].subs(sub))
        ok = ws[2] == rs[2] and eq(ws[0], rstart) and eq(ws[1], rlen)
        ck.ob("E12.buffer-layout", "Graph/segment#%d" % (i + 1), ok,
              "writer: %s[%s entries] at u64 offset %s; reader: %s[%s] at %s" % (ws[2], ws[1], ws[0], rs[2], rlen, rstart), fr.file, rs[3].get("l"))
    # C. the payload ends where the allocated buffer ends
    if w.segs and w.bytes is not None:
        end = sp.expand((w.segs[-1][0] + w.segs[-1][1]) * 8)
        ck.ob("E12.buffer-layout", "Graph/total", eq(end, w.bytes), "last segment ends at byte %s, buffer has %s bytes" % (end, sp.expand(w.bytes)), fw.file, fw.line)
    # D. degenerate objects: the symbolic comparison above follows the general (non-empty) case of every emptiness
    #    case split; here writer and reader are run on concrete degenerate states with all their own conditions
    #    (early-outs, `c.empty() ? a : b` inside inlined accessors, `if(n > 0)` guards) evaluated.  The rebuilt object
    #    must answer every size observer of the class (const, argument-free, single-return members) like the original.
    conts = sorted({str(x)[2:] for e_ in list(w.slots.values()) + [sg[1] for sg in w.segs] for x in e_.free_symbols if str(x).startswith("N_")},
                   key=lambda c: [sg[2] for sg in w.segs].index(c) if c in [sg[2] for sg in w.segs] else 99)
    scal = sorted({str(x)[2:] for e_ in w.slots.values() for x in e_.free_symbols if str(x).startswith("F_")})
    cls_fns = [g for g in gfacts.functions if g.cls == fw.cls and g.d.get("const") and not g.params and g.body is not None]
    observers = []
    for g in cls_fns:
        rets = [x for x in g.nodes() if x.get("k") == "Return"]
        if len(rets) == 1 and re.match(r"^(FEAT::)?Index$|unsigned long|std::size_t", (g.type(g.d.get("rt")) if g.d.get("rt") is not None else "Index")):
            observers.append((g, rets[0].get("e")))
    states = [("all-empty", {c: 0 for c in conts})]
    if conts:
        st = {c: 0 for c in conts}
        st[conts[0]] = 1
        states.append(("%s=1" % conts[0], st))
    # every combination of empty / non-empty sections: the conditions that guard a section in the writer (early-outs) and in
    # the reader (`if(n > 0)`, early returns) must select the same sections
    for combo in itertools.product((0, 2), repeat=len(conts)):
        if any(combo):
            states.append((",".join("%s=%d" % (c, v) for c, v in zip(conts, combo)), dict(zip(conts, combo))))
    for label, st in states:
        key = "Graph/degenerate:%s" % label
        env = {"N_" + c: v for c, v in st.items()}
        env.update({"F_" + f_: 3 for f_ in scal})
        wc = CursorInterp(W, fw, "w", env=dict(env))
        wc.run()
        probs = []
        compared = set()
        if wc.unknown:
            ck.incomplete("E12.buffer-layout", "%s: writer not evaluable on the concrete state: %s" % (key, wc.unknown[0]))
            continue
        bad_slot = [(k, v) for k, v in sorted(wc.slots.items()) if not v.is_Integer or int(v) < 0 or int(v) >= 2 ** 64]
        for k, v in bad_slot:
            probs.append("header slot %d is %s for this object (`%s`): not representable, the unsigned store wraps and the reader rebuilds a different/invalid object" % (
                k, v, render(wc.slot_nodes[k].get("rhs"))[:60]))
        if not bad_slot:
            renv = {"S%d" % k: int(v) for k, v in wc.slots.items()}
            if wc.bytes is not None and wc.bytes.is_Integer:
                renv["BYTES"] = int(wc.bytes)
            rc = CursorInterp(W, fr, "r", env=renv)
            rc.run()
            if rc.unknown:
                ck.incomplete("E12.buffer-layout", "%s: reader not evaluable on the concrete header: %s" % (key, rc.unknown[0]))
                continue
            for start, ln, fld, node in rc.segs:
                if not (start.is_Integer and ln.is_Integer):
                    probs.append("segment of %s has no concrete extent" % fld)
                    continue
                if "BYTES" in renv and (int(start) + int(ln)) * 8 > renv["BYTES"]:
                    probs.append("reader copies %d entries of %s from u64 offset %d but the buffer has only %d bytes" % (int(ln), fld, int(start), renv["BYTES"]))
                alloc = rc.sizes.get(fld, sp.Integer(0))
                if alloc.is_Integer and int(ln) > int(alloc):
                    probs.append("reader copies %d entries into %s which has %d" % (int(ln), fld, int(alloc)))
            back = {"N_" + c: int(rc.sizes.get(c, sp.Integer(0))) for c in conts if rc.sizes.get(c, sp.Integer(0)).is_Integer}
            for f_ in scal:
                v = rc.fields.get(f_)
                if v is not None and v.is_Integer:
                    back["F_" + f_] = int(v)
            for g, expr in observers:
                try:
                    ow = CursorInterp(W, fw, "w", env=dict(env)).sym_general(expr)
                    orr = CursorInterp(W, fw, "w", env=dict(back)).sym_general(expr)
                except Unknown:
                    continue
                if ow.is_Integer and orr.is_Integer:
                    compared.add(g.name)
                if ow.is_Integer and orr.is_Integer and int(ow) != int(orr):
                    probs.append("%s() is %d for the original and %d for the object rebuilt from its buffer" % (g.name, int(ow), int(orr)))
        ck.ob("E12.buffer-layout", key, not probs,
              "; ".join(probs) or "header representable, reader stays inside buffer and containers, size observers agree (%s)" % ", ".join(sorted(compared)),
              fw.file, fw.line)
        if not probs and not compared:
            ck.incomplete("E12.buffer-layout", "%s: no size observer of %s could be evaluated" % (key, fw.cls))


# -------------------------------------------------------------------------------------------------
# E7.children-required: mandatory child blocks are recorded in markup() and demanded in close()
# -------------------------------------------------------------------------------------------------

# (parser class, child tag) the format description calls mandatory; the quoted anchor sentence must still be in
# doxy_in/mesh_format.dox, otherwise the transcription has to be re-done (exit 2).
MANDATORY_CHILDREN = [
    ("MeshParser", "Vertices", "The root mesh is defined by two mandatory sets of information"),
    ("MeshParser", "Topology", "The root mesh is defined by two mandatory sets of information"),
    ("BezierChartParser", "Points", "chart must contain a child node named <c>Points</c>"),
    ("SurfaceMeshChartParser", "Vertices", "two child nodes named \\c Vertices and \\c Triangles"),
    ("SurfaceMeshChartParser", "Triangles", "two child nodes named \\c Vertices and \\c Triangles"),
]


def branch_for_name(fn, tag):
    """the statements of markup() that are executed only for `name == tag` (as a synthetic block): every CFG element for which
    the equality is a must-fact - independent of how the dispatch is spelled"""
    name_param = fn.params[2]["n"] if len(fn.params) >= 3 else None
    W = WORLD[0]
    if fn.cfg is None or name_param is None or W is None:
        return None
    e = W.ecfg(fn)
    IN = e.solve()
    stmts = []
    for b, el in e.el.items():
        if b not in IN:
            continue
        facts = set(IN[b])
        for sid in el:
            n = fn.by_id(sid)
            if n is None:
                continue
            if tag in name_tags(facts, name_param):
                stmts.append(n)
            facts = e._transfer_stmt(facts, n)
    # a member helper called under the tag runs under it as well: its statements belong to the region
    extra, seen_h = [], set()
    work = list(stmts)
    depth = 0
    while work and depth < 40:
        depth += 1
        n = work.pop()
        for x in walk(n):
            if x.get("k") == "OpCall" and x.get("op") == "()" and x.get("cdecl") is not None and (x.get("ccls") == "<lambda>" or "lambda" in (x.get("callee") or "")):
                hl = [g_ for g_ in fn.facts.functions if g_.d.get("decl") == x.get("cdecl") and g_.body is not None]
                if hl and id(hl[0]) not in seen_h:
                    seen_h.add(id(hl[0]))
                    hs = hl[0].body.get("s", []) if hl[0].body.get("k") == "Block" else [hl[0].body]
                    extra += hs
                    work += hs
            if x.get("k") == "MCall" and (x.get("obj") is None or strip(x["obj"]).get("k") == "This"):
                h = W.resolve(x, fn)
                if h is not None and h.body is not None and h is not fn and id(h) not in seen_h and h.cls == fn.cls and h.name not in PARSER_METHODS:
                    seen_h.add(id(h))
                    hs = h.body.get("s", []) if h.body.get("k") == "Block" else [h.body]
                    extra += hs
                    work += hs
    stmts += extra
    if not stmts:
        return None
    return {"k": "Block", "s": stmts}


def recorded_members(W, fn, sub):
    """fields of this that the branch `sub` of markup() writes, or hands to the child parser's constructor by
    non-const reference (the constructor's own parameter types decide, make_shared forwards everything by reference)"""
    out = set()
    for n in walk(sub):
        if n.get("k") == "Assign" and is_this_field(n["lhs"]):
            out.add(strip(n["lhs"])["n"])
        if n.get("k") == "Un" and n.get("op") in ("++", "--") and is_this_field(n["e"]):
            out.add(strip(n["e"])["n"])          # a counter of the blocks seen records the child as well as a flag
        if n.get("k") == "OpCall" and n.get("op") in ("=", "+=", "|=") and n.get("a") and is_this_field(n["a"][0]):
            out.add(strip(n["a"][0])["n"])
        if n.get("k") == "MCall" and n.get("n") in ("push_back", "emplace_back", "insert", "emplace", "reset", "assign") and is_this_field(n.get("obj")):
            out.add(strip(n["obj"])["n"])
        if n.get("k") == "Call" and n.get("callee") == "std::make_shared":
            cls = first_targ(n.get("cfull") or "")
            ctors = [g for g in W.fns.values() if g.cls == cls and g.d.get("ctor") and len(g.params) == len(n.get("a", []))]
            if len(ctors) != 1:
                continue
            for a, p in zip(n.get("a", []), ctors[0].params):
                t = (ctors[0].type(p["t"]) or "").strip()
                r = root_var(a)
                if r and is_this_field_root(a, r) and t.endswith("&") and not t.startswith("const"):
                    out.add(r)
    return out


def tested_in_close(W, close, member):
    """some branch of close() whose condition depends on `member` (directly or via a local computed from it) has a
    throwing edge"""
    e = W.ecfg(close)
    dep_locals = set()
    for _ in range(3):
        for n in close.nodes():
            tgt, src = None, None
            if n.get("k") == "Var" and n.get("init") is not None:
                tgt, src = n["n"], n["init"]
            elif n.get("k") == "Assign" and strip(n["lhs"]).get("k") == "Ref":
                tgt, src = strip(n["lhs"])["n"], n["rhs"]
            if tgt and (("@" + member) in vars_of(src) or (vars_of(src) & dep_locals)):
                dep_locals.add(tgt)
    for b in e.el:
        br = e.branch(b)
        if br is None:
            continue
        c = close.by_id(e.cfg.blocks[b]["cond"])
        vs = vars_of(c)
        if ("@" + member) in vs or (vs & dep_locals):
            if any(s is not None and e.only_throws_from(s) and documented(e.throw_classes_from(s)) for s in e.succ[b]):
                return True
    # a loop/if condition evaluated in one block and the throw decided deeper: accept any dominated throwing branch
    return False


def rule_children(ck, W, pcs):
    dox = featlib.repo_path("doxy_in/mesh_format.dox")
    try:
        text = open(dox, encoding="utf-8", errors="replace").read()
    except OSError:
        text = None
    text_n = re.sub(r"\s+", " ", text) if text else ""
    groups = {}
    for pc in pcs:
        groups.setdefault(pc.short, []).append(pc)
    for cls, tag, anchor in MANDATORY_CHILDREN:
        key = "%s/<%s>" % (cls, tag)
        if text is None or re.sub(r"\s+", " ", anchor) not in text_n:
            ck.incomplete("E7.children-required", "%s: oracle anchor text %r no longer found in doxy_in/mesh_format.dox" % (key, anchor))
            continue
        insts = groups.get(cls, [])
        if not insts:
            ck.incomplete("E7.children-required", "%s: class not instantiated" % key)
            continue
        probs, unk = [], []
        for pc in insts:
            mk, close = pc.m["markup"], pc.m["close"]
            sub = branch_for_name(mk, tag)
            if sub is None:
                unk.append("no `name == \"%s\"` branch recognised in markup() (the child may be dispatched by another construct)" % tag)
                continue
            mem = recorded_members(W, mk, sub)
            # anything in that branch that could record the child in a way the rule does not model?
            other = []
            for x in walk(sub):
                if x.get("k") in ("Call", "MCall") and x.get("callee") != "std::make_shared" and not MODELLED_CALLEES.match(x.get("callee") or "") \
                   and not (x.get("ccls") or "").startswith("std::"):
                    own = x.get("k") == "MCall" and (x.get("obj") is None or strip(x["obj"]).get("k") == "This")
                    passes = any(strip(a) is not None and (strip(a).get("k") == "This" or any(v.startswith("@") for v in vars_of(a))) for a in x.get("a", []))
                    if (own and not ACCESSOR_RE.match(x.get("n") or "")) or (passes and not ACCESSOR_RE.match(x.get("n") or "x")):
                        other.append(render(x)[:50])
                if x.get("k") == "Call" and x.get("callee") == "std::make_shared":
                    cls_ = first_targ(x.get("cfull") or "")
                    if len([g for g in W.fns.values() if g.cls == cls_ and g.d.get("ctor") and len(g.params) == len(x.get("a", []))]) != 1:
                        other.append("constructor of %s (not resolved)" % short(cls_ or "?"))
            ec = W.ecfg(close)
            if not mem:
                if other:
                    unk.append("no field is set for <%s> in markup(), but %s may record it" % (tag, other))
                else:
                    probs.append("markup() does not record that <%s> was seen (no field is set or handed to the child parser), so close() cannot demand it: "
                                 "an element without its <%s> block is accepted" % (tag, tag))
                continue
            tested = any(tested_in_close(W, close, m) for m in mem)
            if not tested:
                # facts a throwing helper of close() establishes about the recorded fields
                for b in ec.normal_exits():
                    fs = ec.facts_at_end(b, ec.exit) or set()
                    if any(f[4] & {"@" + m for m in mem} for f in fs):
                        tested = True
            if not tested:
                # a flag that markup() sets for this child and that no member function ever reads cannot be demanded anywhere
                flags = {strip(x["lhs"])["n"] for x in walk(sub) if x.get("k") == "Assign" and is_this_field(x["lhs"])} | \
                        {strip(x["e"])["n"] for x in walk(sub) if x.get("k") == "Un" and x.get("op") in ("++", "--") and is_this_field(x["e"])}
                # member functions that run as part of close()
                cls_fns, todo = [], [close]
                while todo:
                    g = todo.pop()
                    if any(g is h for h in cls_fns):
                        continue
                    cls_fns.append(g)
                    for x in g.nodes():
                        if x.get("k") == "MCall" and (x.get("obj") is None or strip(x["obj"]).get("k") == "This"):
                            h = W.resolve(x, g)
                            if h is not None and h.cls == pc.cls:
                                todo.append(h)
                dead = []
                for fl in flags:
                    reads = 0
                    for g in cls_fns:
                        lhs_ids = {id(strip(x["lhs"])) for x in g.nodes() if x.get("k") == "Assign"}
                        reads += sum(1 for x in g.nodes() if x.get("k") == "Member" and x.get("n") == fl and is_this_field(x) and id(x) not in lhs_ids)
                    if reads == 0:
                        dead.append(fl)
                sus = suspects(W, ec, None, {"@" + m for m in mem}, anywhere=True)
                if dead:
                    probs.append("close() never rejects on %s (%s is set in markup() but never read by close() or the member functions it calls): an element without its <%s> block is accepted" % (sorted(mem), sorted(dead), tag))
                elif sus or other:
                    unk.append("close() has no visible rejection on %s, but %s may perform it" % (sorted(mem), sus or other))
                else:
                    probs.append("close() never rejects on %s: an element without its <%s> block is accepted" % (sorted(mem), tag))
        f0 = insts[0].m["close"]
        if unk and not probs:
            undecided(ck, "E7.children-required", key, "; ".join(sorted(set(unk))))
            continue
        ck.ob("E7.children-required", key, not probs, "; ".join(sorted(set(probs))) or "recorded in markup(), demanded in close() (%d instantiation(s))" % len(insts), f0.file, f0.line)


# -------------------------------------------------------------------------------------------------
# E12.ini-delimiters: PropertyMap::write line forms  <->  PropertyMap::read line classification
# -------------------------------------------------------------------------------------------------

def char_value(n):
    n = strip(n)
    if n is not None and n.get("k") == "Char":
        return chr(n["v"])
    return None


def ini_predicate(c, line):
    """recognise the line-classification predicates of PropertyMap::read"""
    c = strip(c)
    if c.get("k") == "Bin" and c["op"] == "&&":
        a, b = ini_predicate(c["lhs"], line), ini_predicate(c["rhs"], line)
        if a and b and a[0] == "front" and b[0] == "back":
            return ("brackets", a[1], b[1])
        return None
    if c.get("k") == "MCall" and c.get("n") in ("starts_with", "ends_with") and root_var(c.get("obj")) == line and len(c.get("a", [])) == 1:
        ch = char_value(c["a"][0])
        if ch is None and str_value(c["a"][0]) is not None and len(str_value(c["a"][0])) == 1:
            ch = str_value(c["a"][0])
        if ch is not None:
            return ("front" if c["n"] == "starts_with" else "back", ch)
    p = cmp_parts(c)
    if p is None:
        return None
    op, l, r = p

    def end_of(x):
        """'front' / 'back' if x denotes the first / last character of the line in another spelling: line[0], line.at(0),
        line[line.size()-1], line.at(line.length()-1), *line.begin(), *line.rbegin()"""
        x = strip(x)
        idx = None
        if x.get("k") == "MCall" and x.get("n") in ("at", "operator[]") and root_var(x.get("obj")) == line and len(x.get("a", [])) == 1:
            idx = strip(x["a"][0])
        elif x.get("k") == "OpCall" and x.get("op") == "[]" and len(x.get("a", [])) == 2 and root_var(x["a"][0]) == line:
            idx = strip(x["a"][1])
        elif x.get("k") == "OpCall" and x.get("op") == "*" and len(x.get("a", [])) == 1:
            it = strip(x["a"][0])
            if it.get("k") == "MCall" and root_var(it.get("obj")) == line and not it.get("a"):
                return {"begin": "front", "cbegin": "front", "rbegin": "back", "crbegin": "back"}.get(it.get("n"))
        if idx is None:
            return None
        if _int_lit(idx) == 0:
            return "front"
        if idx.get("k") == "Bin" and idx["op"] == "-" and _int_lit(idx["rhs"]) == 1:
            sz = strip(idx["lhs"])
            if sz.get("k") == "MCall" and sz.get("n") in ("size", "length") and root_var(sz.get("obj")) == line:
                return "back"
        return None
    for x, y in ((l, r), (r, l)):
        sx = strip(x)
        if sx.get("k") == "MCall" and sx.get("n") in ("front", "back") and root_var(sx.get("obj")) == line and char_value(y) is not None and op == "==":
            return (sx["n"], char_value(y))
        if op == "==" and char_value(y) is not None and end_of(sx) is not None:
            return (end_of(sx), char_value(y))
        if op == "==" and sx.get("k") == "Ref" and sx.get("n") == line and str_value(y) is not None:
            return ("equals", str_value(y))
        if op == "!=":
            for z in walk(sx):
                if z.get("k") == "MCall" and z.get("n") == "find" and root_var(z.get("obj")) == line and z.get("a") and char_value(z["a"][0]) is not None:
                    return ("contains", char_value(z["a"][0]))
    return None


def rule_ini(ck, W, pfacts):
    rd = [f for f in pfacts.functions if f.qn == "FEAT::PropertyMap::read" and len(f.params) == 2 and "istream" in (f.type(f.params[0]["t"]) or "")]
    wr = [f for f in pfacts.functions if f.qn == "FEAT::PropertyMap::write" and len(f.params) == 2 and "ostream" in (f.type(f.params[0]["t"]) or "")]
    if not rd or not wr:
        ck.incomplete("E12.ini-delimiters", "PropertyMap::read(std::istream&, bool) / write(std::ostream&, size_type) not found")
        return
    rd, wr = rd[0], wr[0]
    # reader: the line variable, the comment character, the classification chain
    line = None
    for n in rd.nodes():
        if n.get("k") == "Call" and re.search(r"getline$", n.get("callee") or "") and len(n.get("a", [])) >= 2:
            line = root_var(n["a"][1])
            break
    comment = set()
    for n in rd.nodes():
        if n.get("k") == "If":
            hit = None
            for z in walk(n["c"]):
                if z.get("k") == "MCall" and z.get("n") == "find" and root_var(z.get("obj")) == line and z.get("a") and char_value(z["a"][0]) is not None:
                    hit = char_value(z["a"][0])
            if hit and any(z.get("k") == "MCall" and z.get("n") == "erase" and root_var(z.get("obj")) == line for z in walk(n.get("then"))) \
               and not any(z.get("k") == "MCall" and z.get("n") in ("add_entry", "substr") for z in walk(n.get("then"))):
                comment.add(hit)
    chain = None
    elses = set()
    ifs = [n for n in rd.nodes() if n.get("k") == "If"]
    for n in ifs:
        if n.get("else") is not None and n["else"].get("k") == "If":
            elses.add(id(n["else"]))
    for n in ifs:
        if id(n) in elses:
            continue
        p = ini_predicate(n["c"], line)
        if p and p[0] == "brackets":
            chain = n
    if line is None or len(comment) != 1 or chain is None:
        ck.incomplete("E12.ini-delimiters", "PropertyMap::read: line variable / comment character / classification chain not recognised (%s, %s)" % (line, sorted(comment)))
        return
    cch = sorted(comment)[0]
    preds = []
    chain_nodes = []
    n = chain
    e = W.ecfg(rd)
    while n is not None and n.get("k") == "If":
        p = ini_predicate(n["c"], line)
        if p is None:
            ck.incomplete("E12.ini-delimiters", "PropertyMap::read: predicate `%s` not understood" % render(n["c"])[:60])
            return
        acts = sorted({z.get("n") for z in walk(n.get("then")) if z.get("k") == "MCall" and z.get("n") in ("add_section", "add_entry", "push", "pop")})
        preds.append((p, acts))
        chain_nodes.append((n, p))
        n = n.get("else")
    rule_ini_state(ck, W, rd, chain_nodes)

    def classify(text):
        i = text.find(cch)
        if i >= 0:
            text = text[:i]
        text = text.strip()
        if not text:
            return "blank"
        for j, (p, acts) in enumerate(preds):
            if p[0] == "brackets" and text[0] == p[1] and text[-1] == p[2]:
                return j
            if p[0] == "contains" and p[1] in text:
                return j
            if p[0] == "equals" and text == p[1]:
                return j
        return "rejected"

    em = Emitter(W, ck)
    em.targets = lambda call: []
    evs = em.events(wr)
    templates, cur, holes = [], "", 0
    for ev in evs:
        if ev[0] == "lit":
            for ch in ev[1]:
                if ch == "\n":
                    templates.append((cur, holes, ev[3]))
                    cur, holes = "", 0
                else:
                    cur += ch
        elif ev[0] == "val":
            # the indentation prefix is whitespace; names/values are represented by an identifier
            t = wr.ntype(ev[1]) or ""
            s = strip(ev[1])
            is_prefix = s.get("k") == "Ref" and s.get("dk") == "local" and cur == ""
            cur += " " if is_prefix else "x"
            holes += 0 if is_prefix else 1
        elif ev[0] == "alt":
            cur += "x"
    if cur.strip():
        templates.append((cur, holes, None))
    used = {}
    for text, holes, where in templates:
        cls = classify(text)
        key = "PropertyMap/line:%s" % re.sub(r"\s+", " ", text.strip())
        if cls in ("blank", "rejected"):
            ck.ob("E12.ini-delimiters", key, False,
                  "PropertyMap::write emits the line form `%s`, which read() %s" % (text.strip(), "skips as empty/comment" if cls == "blank" else "matches with none of its forms %s and rejects with a SyntaxError" % [p for p, _ in preds]),
                  wr.file, strip(where[1]).get("l") if where else wr.line)
            continue
        other = used.get(cls)
        used.setdefault(cls, text)
        acts = preds[cls][1]
        ok = other is None
        detail = "read as form %s -> %s" % (preds[cls][0], acts or "structure")
        if other is not None:
            ok = False
            detail = "line forms `%s` and `%s` are both read as %s" % (other.strip(), text.strip(), preds[cls][0])
        elif holes == 2 and "add_entry" not in acts:
            ok = False
            detail = "the key-value line `%s` is read by the branch %s, which does not add an entry" % (text.strip(), preds[cls][0])
        elif holes == 1 and preds[cls][0][0] == "brackets" and "add_section" not in acts:
            ok = False
            detail = "the section line is read by a branch that does not add a section"
        ck.ob("E12.ini-delimiters", key, ok, detail, wr.file, strip(where[1]).get("l") if where else wr.line)


# -------------------------------------------------------------------------------------------------
# E2.loop-range: loops over flag/size containers of a parser cover exactly the container they test
# -------------------------------------------------------------------------------------------------

def class_size_table(cfs, all_parser_fns):
    """{field: int} for std containers of a parser class that are sized once, by `field.resize(<constant>)` (template constants
    folded), and never grown/shrunk elsewhere (no other mutator on a field of that name in any parser class)"""
    sizes, bad = {}, set()
    for g in cfs:
        for n in g.nodes():
            if n.get("k") == "MCall" and n.get("n") == "resize" and is_this_field(n.get("obj")) and n.get("a"):
                fld = strip(n["obj"])["n"]
                try:
                    v = evalnode(n["a"][0], {})
                except Unknown:
                    bad.add(fld)
                    continue
                if fld in sizes and sizes[fld] != v:
                    bad.add(fld)
                sizes[fld] = v
    key = id(all_parser_fns)
    if key not in _MUTATED:
        mut = set()
        for g in all_parser_fns:
            for n in g.nodes():
                if n.get("k") == "MCall" and (n.get("ccls") or "").startswith("std::") and n.get("n") in STD_MUTATORS and n.get("n") != "resize" \
                   and is_this_field(n.get("obj")) and n.get("n") not in ("get", "str"):
                    mut.add(strip(n["obj"])["n"])
                if n.get("k") == "OpCall" and n.get("op") == "=" and n.get("a") and is_this_field(n["a"][0]):
                    mut.add(strip(n["a"][0])["n"])
        _MUTATED.clear()
        _MUTATED[key] = mut
    bad |= _MUTATED[key]
    return {f: v for f, v in sizes.items() if f not in bad}


_MUTATED = {}


def loop_header(n):
    """(loop variable, lower bound int, bound node, inclusive) of `for(T i(lo); i < B; ++i)`"""
    init, c = n.get("init"), strip(n.get("c"))
    if init is None or init.get("k") != "Decl" or len(init.get("vars", [])) != 1 or c is None:
        return None
    v = init["vars"][0]
    i0 = strip(v.get("init"))
    if i0 is None or i0.get("k") != "Int":
        return None
    if c.get("k") == "Bin" and c["op"] == "!=" and i0["v"] == "0":
        # for(i = 0; i != n; ++i) with an unsigned/size bound counts like i < n
        inc = strip(n.get("inc"))
        for x, y in ((c["lhs"], c["rhs"]), (c["rhs"], c["lhs"])):
            if strip(x).get("k") == "Ref" and strip(x)["n"] == v["n"] and inc is not None and inc.get("k") == "Un" and inc.get("op") == "++" \
               and v["n"] not in vars_of(y):
                return v["n"], 0, y, False
        return None
    if c.get("k") != "Bin" or c["op"] not in ("<", "<=") or strip(c["lhs"]).get("k") != "Ref" or strip(c["lhs"])["n"] != v["n"]:
        return None
    return v["n"], int(i0["v"]), c["rhs"], c["op"] == "<="


def _int_lit(n):
    n = strip(n)
    while n is not None and n.get("k") in ("Construct", "TempObj") and len(n.get("a", [])) == 1:
        n = strip(n["a"][0])
    if n is not None and n.get("k") == "Int":
        return int(n["v"])
    return None


def _unit_step(x, name):
    """+1 / -1 if statement x advances the local `name` by one"""
    x = strip(x)
    if x is None:
        return 0
    if x.get("k") == "Un" and x.get("op") in ("++", "--") and strip(x["e"]).get("k") == "Ref" and strip(x["e"]).get("n") == name and "_init" not in x["e"]:
        return 1 if x["op"] == "++" else -1
    if x.get("k") == "Assign" and x.get("op") in ("+=", "-=") and strip(x["lhs"]).get("k") == "Ref" and strip(x["lhs"]).get("n") == name and _int_lit(x["rhs"]) == 1:
        return 1 if x["op"] == "+=" else -1
    return 0


def _modifies_local(body, name, skip=None):
    for r in walk(body):
        if r is skip:
            continue
        if r.get("k") in ("Assign", "Un") and r.get("op") in ("=", "+=", "-=", "*=", "/=", "++", "--") and root_var(r.get("lhs") or r.get("e")) == name:
            return True
    return False


def counted_loops(f, e):
    """the counted loops of f in one form: dict(node, iv, lo, bound (node), incl, body, at (node whose facts describe the loop entry),
    extra (facts that hold in the body by the loop form), kind).  In iteration order the variable iv takes the values
    lo, lo+1, ... < bound (<= if incl); `down` loops take them in the reverse order."""
    out = []
    for loop in f.nodes():
        k = loop.get("k")
        if k == "For":
            hd = loop_header(loop)
            if hd is not None:
                out.append({"node": loop, "iv": hd[0], "lo": hd[1], "bound": hd[2], "incl": hd[3], "body": loop.get("body"), "at": loop["init"], "extra": set(), "kind": "for"})
                continue
            # for(T i(B); i > c; --i)   /   i >= c   /   i != c : i runs B, B-1, ..., c+1 (c for >=)
            init, c, inc = loop.get("init"), strip(loop.get("c")), loop.get("inc")
            if init is not None and init.get("k") == "Decl" and len(init.get("vars", [])) == 1 and c is not None and c.get("k") == "Bin" and c["op"] in (">", ">=", "!="):
                v = init["vars"][0]
                cl = _int_lit(c["rhs"])
                if strip(c["lhs"]).get("k") == "Ref" and strip(c["lhs"]).get("n") == v["n"] and cl is not None and v.get("init") is not None \
                   and _unit_step(inc, v["n"]) == -1 and not _modifies_local(loop.get("body"), v["n"]) and v["n"] not in vars_of(v["init"]):
                    B = v["init"]
                    if c["op"] == "!=" and cl != 0:
                        continue
                    lo = cl if c["op"] == ">=" else cl + 1
                    bvars = vars_of(B)
                    stable = not any(kl.rstrip("~") in bvars or kl == "@*" for x in walk(loop.get("body")) if x.get("k") in ("Assign", "Un") or is_call(x) for kl in e._kills(x))
                    extra = set()
                    if stable:
                        # inside the body i <= B (i starts at B and only decreases)
                        extra.add(("<", norm(B), v["n"], False, frozenset(bvars | {v["n"]}), shape_vars(B)))
                        REG.setdefault(v["n"], {"k": "Ref", "n": v["n"], "dk": "local"})
                    out.append({"node": loop, "iv": v["n"], "lo": lo, "bound": B, "incl": True, "body": loop.get("body"), "at": init, "extra": extra, "kind": "down"})
            continue
        if k == "While":
            # T i(lo); ... while(i < B) { ...; ++i; }  (the step is the last statement of the body, no continue skips it)
            c, body = strip(loop.get("c")), loop.get("body")
            if c is None or c.get("k") != "Bin" or c["op"] not in ("<", "<=", "!=") or body is None or body.get("k") != "Block" or not body.get("s"):
                continue
            lhs = strip(c["lhs"])
            if lhs.get("k") != "Ref" or lhs.get("dk") != "local" or "_init" in c["lhs"]:
                continue
            iv = lhs["n"]
            last = body["s"][-1]
            if _unit_step(last, iv) != 1 or iv in vars_of(c["rhs"]):
                continue
            if any(x.get("k") == "Continue" for x in walk(body, prune=lambda y: y.get("k") in ("For", "While", "Do", "ForRange"))):
                continue
            if _modifies_local(body, iv, skip=strip(last)):
                continue
            # the declaration: closest preceding statement of the enclosing block, nothing in between touches the variable
            blk = e.parent(loop)
            decl = None
            if blk is not None and blk.get("k") == "Block":
                sts = blk.get("s", [])
                pos = [i for i, x in enumerate(sts) if x is loop]
                if pos:
                    for x in reversed(sts[:pos[0]]):
                        if x.get("k") == "Decl" and any(v.get("n") == iv for v in x.get("vars", [])):
                            decl = x
                            break
                        if iv in vars_of(x):
                            break
            if decl is None:
                continue
            v = [v for v in decl["vars"] if v.get("n") == iv][0]
            lo = _int_lit(v.get("init"))
            if lo is None or (c["op"] == "!=" and lo != 0):
                continue
            out.append({"node": loop, "iv": iv, "lo": lo, "bound": c["rhs"], "incl": c["op"] == "<=", "body": {"k": "Block", "s": body["s"][:-1]}, "at": decl, "extra": set(), "kind": "while"})
            continue
        if k == "ForRange":
            # for(x : V) with a running counter `k(0)` declared right in front and advanced by one at the end of the body:
            # in the body k is the number of the entry visited, k < V.size()
            rng, body = loop.get("range"), loop.get("body")
            if rng is None or body is None or body.get("k") != "Block" or not body.get("s"):
                continue
            blk = e.parent(loop)
            if blk is None or blk.get("k") != "Block":
                continue
            sts = blk.get("s", [])
            pos = [i for i, x in enumerate(sts) if x is loop]
            last = body["s"][-1]
            if not pos or pos[0] == 0:
                continue
            prev = sts[pos[0] - 1]
            if prev.get("k") != "Decl" or len(prev.get("vars", [])) != 1:
                continue
            v = prev["vars"][0]
            if _int_lit(v.get("init")) != 0 or _unit_step(last, v["n"]) != 1 or _modifies_local(body, v["n"], skip=strip(last)):
                continue
            if any(x.get("k") == "Continue" for x in walk(body, prune=lambda y: y.get("k") in ("For", "While", "Do", "ForRange"))):
                continue
            szn = {"k": "MCall", "n": "size", "obj": rng, "a": [], "cconst": True, "ccls": "std::"}
            extra = {("<", v["n"], norm(szn), True, frozenset(vars_of(rng) | {v["n"]}), shape_vars(szn))}
            REG.setdefault(v["n"], {"k": "Ref", "n": v["n"], "dk": "local"})
            out.append({"node": loop, "iv": v["n"], "lo": 0, "bound": szn, "incl": False, "body": {"k": "Block", "s": body["s"][:-1]}, "at": prev, "extra": extra, "kind": "range-counter"})
    return out


WHOLE_RANGE_ALGOS = ("std::find", "std::find_if", "std::find_if_not", "std::any_of", "std::all_of", "std::none_of", "std::count", "std::count_if")


def rule_loop_range(ck, W, pcs, facts):
    cfs_all = class_functions(facts)
    all_parser_fns = [g for pc in pcs for g in cfs_all.get(pc.cls, [])]
    seen = {}
    for pc in pcs:
        cfs = cfs_all.get(pc.cls, [])
        table = class_size_table(cfs, all_parser_fns)
        for f in sorted(cfs, key=lambda g: g.full):
            if f.cfg is None or f.d.get("ctor") or f.d.get("dtor"):
                continue
            e = W.ecfg(f)
            # loops that visit every entry by construction: range-for over the container, standard algorithms over [begin, end)
            for x in f.nodes():
                V = None
                if x.get("k") == "ForRange" and is_this_field(x.get("range")) and re.match(r"(const )?std::(deque|vector|array)", f.ntype(strip(x["range"])) or ""):
                    uses_var = any(y.get("k") == "Ref" and y.get("d") == (x.get("var") or {}).get("d") for y in walk(x.get("body")))
                    if uses_var:
                        V = strip(x["range"])["n"]
                elif x.get("k") == "Call" and x.get("callee") in WHOLE_RANGE_ALGOS and len(x.get("a", [])) >= 2:
                    a0, a1 = strip(x["a"][0]), strip(x["a"][1])
                    if a0.get("k") == "MCall" and a0.get("n") in ("begin", "cbegin") and is_this_field(a0.get("obj")) and re.match(r"std::(deque|vector|array)", a0.get("ccls") or ""):
                        V = strip(a0["obj"])["n"]
                        if not (a1.get("k") == "MCall" and a1.get("n") in ("end", "cend") and is_this_field(a1.get("obj")) and strip(a1["obj"])["n"] == V):
                            key = "%s::%s/%s[i]" % (pc.short, f.name, V)
                            rec = seen.setdefault(key, {"probs": [], "fn": f, "line": x.get("l"), "n": 0})
                            rec["n"] += 1
                            rec.setdefault("unk", []).append("`%s` searches a sub-range of %s; whether it ends at %s.end() is not decided" % (render(x)[:50], V, V))
                            continue
                if V is None:
                    continue
                key = "%s::%s/%s[i]" % (pc.short, f.name, V)
                rec = seen.setdefault(key, {"probs": [], "fn": f, "line": x.get("l"), "n": 0})
                rec["n"] += 1
            for lp in counted_loops(f, e):
                loop, iv, lo, bnode, incl = lp["node"], lp["iv"], lp["lo"], lp["bound"], lp["incl"]
                # accesses of field containers subscripted with the loop variable
                tested = set()
                for x in walk(lp["body"]):
                    if x.get("k") == "If":
                        for y in walk(x["c"]):
                            c = cmp_parts(y) if y.get("k") in ("Bin", "OpCall") else None
                            if c:
                                tested.add(id(strip(c[1])))
                                tested.add(id(strip(c[2])))
                for x in walk(lp["body"]):
                    cont = idx = None
                    if x.get("k") == "MCall" and x.get("n") in ("at", "operator[]") and x.get("a") and re.match(r"std::(deque|vector|array)", x.get("ccls") or ""):
                        cont, idx = x.get("obj"), x["a"][0]
                    elif x.get("k") == "OpCall" and x.get("op") == "[]" and re.match(r"std::(deque|vector|array)", x.get("ccls") or ""):
                        cont, idx = x["a"][0], x["a"][1]
                    if cont is None or not is_this_field(cont) or iv not in vars_of(idx):
                        continue
                    V = strip(cont)["n"]
                    # the entry visited in iteration iv is iv + shift
                    nidx = norm(idx)
                    shift = 0 if nidx == iv else None
                    sidx = strip(idx)
                    if shift is None and sidx.get("k") == "Bin" and sidx["op"] in ("+", "-") and norm(sidx["lhs"]) == iv and _int_lit(sidx["rhs"]) is not None:
                        shift = _int_lit(sidx["rhs"]) * (1 if sidx["op"] == "+" else -1)
                    if lp["kind"] == "down" and shift is not None:
                        keyidx = "i" if shift == -1 else nidx.replace(iv, "i")        # for(i = n; i > 0; --i) V[i-1] is the loop over V[i]
                    else:
                        keyidx = nidx.replace(iv, "i")
                    key = "%s::%s/%s[%s]" % (pc.short, f.name, V, keyidx)
                    rec = seen.setdefault(key, {"probs": [], "fn": f, "line": x.get("l"), "n": 0})
                    rec["n"] += 1
                    size_s = "%s.size()" % V
                    REG.setdefault(size_s, {"k": "Ref", "n": size_s, "dk": "local"})
                    inv = {("==", *sorted((str(v), "%s.size()" % fld)), True, frozenset(), frozenset()) for fld, v in table.items()}
                    for fa in list(inv):
                        REG.setdefault(fa[1] if fa[1].endswith(".size()") else fa[2], {"k": "Ref", "n": fa[1] if fa[1].endswith(".size()") else fa[2], "dk": "local"})
                    # safety: index below the container's size on every iteration
                    fs = e.facts_at(x)
                    if fs is None:
                        continue
                    try:
                        wit, nok = small_model(set(fs) | inv | lp["extra"], idx, REG[size_s])
                    except Unknown as ex:
                        ck.incomplete("E2.loop-range", "%s: cannot evaluate `%s` (%s)" % (key, render(x)[:50], ex))
                        continue
                    if wit is not None and V not in table:
                        rec.setdefault("unk", []).append("`%s` not provably inside %s (its size is not known from a constant resize())" % (render(x)[:40], V))
                        continue
                    if wit is not None:
                        rec["probs"].append("[%s] `%s` in the loop `%s %s %s` can leave the container: %s" % (
                            first_targ(pc.cls) or "", render(x)[:40], iv, "<=" if incl else "<", render(bnode)[:40], fmt_witness(wit)))
                        continue
                    # coverage: a loop that tests V[i] in a rejecting/flagging condition has to visit every entry of V
                    if id(x) in tested and shift is not None and shift == (-1 if lp["kind"] == "down" else 0) and lo + shift > 0 and lp["kind"] != "for":
                        # (forms introduced by a restructured loop: while / count-down / running counter; a plain for loop that
                        # starts above 0 is taken as intended, as before)
                        rec["probs"].append("[%s] the loop tests `%s` but starts with entry %d: the entries below are never tested, a missing block of that dimension is accepted" % (
                            first_targ(pc.cls) or "", render(x)[:40], lo + shift))
                        continue
                    if id(x) in tested and shift is not None and lo + shift == 0 and shift == (-1 if lp["kind"] == "down" else 0):
                        # entries visited: [0, bound + shift (+1 if inclusive))
                        bn = bnode
                        add = shift + (1 if incl else 0)
                        if add:
                            bn = {"k": "Bin", "op": "+" if add > 0 else "-", "lhs": bnode, "rhs": {"k": "Int", "v": str(abs(add))}}
                        last = {"k": "Bin", "op": "-", "lhs": REG[size_s], "rhs": {"k": "Int", "v": "1"}}
                        fh = e.facts_at(lp["at"]) or set()
                        same = norm(bnode) == size_s and add == 0
                        try:
                            wit2, nok2 = (None, 1) if same else small_model(set(fh) | inv | {("<", "0", size_s, True, frozenset(), frozenset())}, last, bn)
                        except Unknown as ex:
                            ck.incomplete("E2.loop-range", "%s: cannot evaluate the loop bound `%s` (%s)" % (key, render(bnode)[:50], ex))
                            continue
                        if wit2 is not None and V not in table:
                            rec.setdefault("unk", []).append("the loop tests `%s` but is bounded by `%s`; the size of %s is not known from a constant resize()" % (
                                render(x)[:40], render(bnode)[:40], V))
                        elif wit2 is not None:
                            known = V in table
                            rec["probs"].append("[%s] the loop tests every `%s` but runs only to `%s`%s: entry %d of %s is never tested, a missing block of that dimension is accepted" % (
                                first_targ(pc.cls) or "", render(x)[:40], render(bnode)[:40],
                                (" = %d while %s has %d entries" % (wit2[2], V, wit2[1] + 1)) if known else " (nothing establishes that this equals %s)" % size_s,
                                wit2[1], V))
    for key, rec in sorted(seen.items()):
        if rec.get("unk") and not rec["probs"]:
            undecided(ck, "E2.loop-range", key, "; ".join(sorted(set(rec["unk"]))))
            continue
        ck.ob("E2.loop-range", key, not rec["probs"],
              "; ".join(sorted(set(rec["probs"]))[:3]) or "index inside the container; tested containers are covered completely (%d loop instance(s))" % rec["n"],
              rec["fn"].file, rec["line"])


# -------------------------------------------------------------------------------------------------
# E11.angles-roundtrip: Extrude::write reconstructs yaw/pitch/roll from the rotation matrix the reader builds from them
# -------------------------------------------------------------------------------------------------

class SymExec:
    """symbolic execution of loop-free numeric code into sympy: const locals, assignments, if/else forks.  Conditions that
    contain opaque values (anything that is not arithmetic over the tracked symbols) stay free: both branches are explored."""

    MATH = {"FEAT::Math::atan2": "atan2", "FEAT::Math::sqrt": "sqrt", "FEAT::Math::sin": "sin", "FEAT::Math::cos": "cos",
            "FEAT::Math::abs": "Abs", "FEAT::Math::atan": "atan", "FEAT::Math::asin": "asin", "FEAT::Math::acos": "acos"}

    def __init__(self, fn):
        import sympy
        self.sp = sympy
        self.fn = fn
        self.opaque = set()
        self.capture = None       # predicate on an emission statement -> list of operand nodes to evaluate
        self.paths = []

    def sym(self, name, **kw):
        return self.sp.Symbol(name, real=True, **kw)

    def sx(self, n, env):
        sp = self.sp
        n = strip(n)
        if n is None:
            raise Unknown("empty")
        k = n.get("k")
        if k == "Int":
            return sp.Integer(int(n["v"]))
        if k == "Float":
            return sp.Rational(n.get("text") or n["v"])
        if k == "Bool":
            return sp.true if n["v"] else sp.false
        if k == "Ref":
            if n.get("dk") in ("local", "param"):
                if n["n"] in env:
                    return env[n["n"]]
                return self.sym("v_" + n["n"])
            if "v" in n:
                return sp.Integer(int(n["v"]))
        if k == "Un" and n["op"] == "-":
            return -self.sx(n["e"], env)
        if k == "Un" and n["op"] == "!":
            return sp.Not(self.sx(n["e"], env))
        if k == "Bin":
            op = n["op"]
            a, b = self.sx(n["lhs"], env), self.sx(n["rhs"], env)
            if op == "+":
                return a + b
            if op == "-":
                return a - b
            if op == "*":
                return a * b
            if op == "/":
                return a / b
            if op in CMP:
                return {"<": sp.Lt, ">": sp.Gt, "<=": sp.Le, ">=": sp.Ge, "==": sp.Eq, "!=": sp.Ne}[op](a, b)
            if op == "&&":
                return sp.And(a, b)
            if op == "||":
                return sp.Or(a, b)
        if k == "Call":
            cal = n.get("callee") or ""
            args = n.get("a", [])
            if cal in self.MATH:
                return getattr(sp, self.MATH[cal])(*[self.sx(a, env) for a in args])
            if cal == "FEAT::Math::sqr" and len(args) == 1:
                return self.sx(args[0], env) ** 2
            if cal == "FEAT::Math::pi":
                return sp.pi
            if cal == "FEAT::Math::eps":
                return self.sym("eps", positive=True)
            if cal == "FEAT::Math::pow" and len(args) == 2:
                return sp.Pow(self.sx(args[0], env), self.sx(args[1], env))
        if k == "OpCall" and n.get("op") == "()" and len(n.get("a", [])) == 3 and is_this_field(n["a"][0]) \
           and all(strip(a).get("k") == "Int" for a in n["a"][1:]):
            return self.sym("M_%s_%s_%s" % (strip(n["a"][0])["n"], strip(n["a"][1])["v"], strip(n["a"][2])["v"]))
        s = self.sym("o_" + re.sub(r"\W+", "_", norm(n))[:60])
        self.opaque.add(s)
        return s

    def run(self, env=None):
        self._exec([self.fn.body], dict(env or {}), [], None)
        return self.paths

    def _exec(self, stmts, env, conds, captured):
        """execute the statement list; `stmts` is a work list (continuation) so that forks see the rest of the function"""
        stmts = list(stmts)
        while stmts:
            n = stmts.pop(0)
            if n is None:
                continue
            k = n.get("k")
            if k == "Block":
                stmts = list(n.get("s", [])) + stmts
            elif k == "Decl":
                for v in n.get("vars", []):
                    if v.get("init") is not None:
                        try:
                            env[v["n"]] = self.sx(v["init"], env)
                        except Unknown:
                            env.pop(v["n"], None)
            elif k == "Assign":
                l = strip(n["lhs"])
                if l.get("k") == "Ref":
                    try:
                        val = self.sx(n["rhs"], env)
                        cur = env.get(l["n"], self.sym("v_" + l["n"]))
                        op_ = n.get("op")
                        env[l["n"]] = val if op_ == "=" else (cur * val if op_ == "*=" else cur + val if op_ == "+=" else cur - val if op_ == "-=" else cur / val if op_ == "/=" else val)
                    except Unknown:
                        env.pop(l["n"], None)
                elif is_this_field(l):
                    try:
                        val = self.sx(n["rhs"], env)
                        cur = env.get("@" + l["n"], self.sym("f_" + l["n"]))
                        op_ = n.get("op")
                        env["@" + l["n"]] = val if op_ == "=" else (cur * val if op_ == "*=" else cur + val if op_ == "+=" else cur - val if op_ == "-=" else cur / val if op_ == "/=" else val)
                    except Unknown:
                        pass
                else:
                    env.setdefault("\0stores", []).append((n["lhs"], self.sx(n["rhs"], env)))
            elif k == "If":
                try:
                    c = self.sx(n["c"], env)
                except Unknown:
                    c = None
                e1, e2 = dict(env), dict(env)
                if "\0stores" in env:
                    e1["\0stores"], e2["\0stores"] = list(env["\0stores"]), list(env["\0stores"])
                self._exec([n.get("then")] + stmts, e1, conds + [(c, True)], captured)
                self._exec([n.get("else")] + stmts, e2, conds + [(c, False)], captured)
                return
            elif k == "Return":
                break
            elif k == "Throw":
                return          # rejected input: not a path of interest
            elif k == "OpCall" and n.get("op") == "<<" and self.capture is not None:
                ops = self.capture(n)
                if ops is not None and captured is None:
                    try:
                        captured = [self.sx(o, env) for o in ops]
                    except Unknown:
                        captured = None
            elif k in ("For", "While", "Do", "ForRange"):
                if not getattr(self, "skip_loops", False):
                    raise Unknown("loop at line %s" % n.get("l"))
                # loops are not executed: whatever they assign is unknown afterwards, emissions inside them are not captured
                for x in walk(n):
                    if x.get("k") in ("Assign", "Un") and x.get("op") in ("=", "+=", "-=", "*=", "/=", "++", "--"):
                        r = root_var(x.get("lhs") or x.get("e"))
                        if r:
                            env.pop(r, None)
                            env.pop("@" + r, None)
        self.paths.append((env, conds, captured))


def angle_operands(attr):
    """capture predicate: the value operands the writer emits inside attribute `attr`"""
    def cap(n):
        base, ops = flatten_shift(n)
        out, inside = [], False
        for o in ops:
            v = str_value(o)
            if v is not None and (" %s=\"" % attr) in v:
                inside = True
                continue
            if inside:
                if v is None:
                    out.append(o)
                elif '"' in v:
                    return out
        return out if inside else None
    return cap


def rule_angles(ck, W, facts):
    import random
    import sympy as sp
    rule = "E11.angles-roundtrip"
    writers = [f for f in facts.functions if f.tk != "pattern" and f.name == "write" and re.match(r"FEAT::Geometry::Atlas::Extrude<", f.cls or "") and len(f.params) == 2]
    if not writers:
        ck.incomplete(rule, "no instantiation of Atlas::Extrude<...>::write found")
        return
    try:
        tfacts = featlib.extract("tu/c11_meshio.cpp", files=featlib.repo_path("kernel/util/tiny_algebra"), names="set_rotation_3d")
    except featlib.AnalysisBroken as ex:
        ck.incomplete(rule, "Tiny::Matrix::set_rotation_3d not extracted: %s" % str(ex)[:100])
        return
    ck.tu(tfacts)
    rot = [f for f in tfacts.functions if f.name == "set_rotation_3d" and "3, 3" in (f.cls or "")]
    if not rot:
        ck.incomplete(rule, "Tiny::Matrix<T,3,3>::set_rotation_3d not instantiated")
        return
    rot = rot[0]
    # ---- reader: R(yaw, pitch, roll)
    ang = [sp.Symbol(nm, real=True) for nm in ("a0", "a1", "a2")]
    try:
        se = SymExec(rot)
        paths = se.run({p["n"]: ang[i] for i, p in enumerate(rot.params[:3])})
        if len(paths) != 1:
            raise Unknown("set_rotation_3d is not straight-line")
        Rm = {}
        for lhs, val in paths[0][0].get("\0stores", []):
            l = strip(lhs)
            if l.get("k") == "OpCall" and l.get("op") == "[]" and strip(l["a"][0]).get("k") == "Index" and is_this_field(strip(l["a"][0])["b"]):
                i, j = strip(strip(l["a"][0])["idx"]), strip(l["a"][1])
                if i.get("k") == "Int" and j.get("k") == "Int":
                    Rm[(int(i["v"]), int(j["v"]))] = val
        if len(Rm) != 9:
            raise Unknown("set_rotation_3d assigns %d of 9 entries in a recognised form" % len(Rm))
    except Unknown as ex:
        ck.incomplete(rule, "reader formula not extracted: %s" % ex)
        return

    def Rof(cs):
        """the reader's matrix with cos/sin of the three angles replaced by the given pairs"""
        sub = {}
        for a, (c, s_) in zip(ang, cs):
            sub[sp.cos(a)] = c
            sub[sp.sin(a)] = s_
        return {ij: e.subs(sub, simultaneous=True) for ij, e in Rm.items()}

    probs, unk = {}, {}
    memo = {}
    r0memo = {}
    domains = [("generic", None), ("pitch=+1/4rev", sp.pi / 2), ("pitch=-1/4rev", -sp.pi / 2)]
    seen_cls = set()
    for wf in sorted(writers, key=lambda f: f.full):
        cfs = [g for g in facts.functions if g.cls == wf.cls and g.tk != "pattern"]
        # which matrix field is set by set_rotation_3d, in which argument order of which setter
        setter = None
        for g in cfs:
            for n in g.nodes():
                if n.get("k") == "MCall" and n.get("n") == "set_rotation_3d" and is_this_field(n.get("obj")) and len(n.get("a", [])) == 3:
                    names = [strip(a).get("n") for a in n["a"]]
                    if all(nm in [p["n"] for p in g.params] for nm in names):
                        setter = (g, strip(n["obj"])["n"], [[p["n"] for p in g.params].index(nm) for nm in names])
        if setter is None:
            ck.incomplete(rule, "%s: no member that feeds its parameters to set_rotation_3d found" % short(wf.cls))
            continue
        sfn, field, order = setter          # rotation parameter j receives setter parameter order[j]
        # reader side: token k of attribute "angles" -> field -> setter argument position, and its scale
        mesh = first_targ(wf.cls)
        rp = [pc_ for pc_ in facts.functions if pc_.name == "create" and re.match(r"FEAT::Geometry::Atlas::ExtrudeChartParser<", pc_.cls or "")
              and first_targ(pc_.cls) == mesh and pc_.tk != "pattern" and pc_.cfg is not None and len(pc_.params) >= 4]
        mk = [pc_ for pc_ in facts.functions if pc_.name == "markup" and rp and pc_.cls == rp[0].cls]
        if not rp or not mk:
            ck.incomplete(rule, "%s: ExtrudeChartParser for %s not instantiated" % (short(wf.cls), mesh))
            continue
        create, markup = rp[0], mk[0]
        tt = token_table(W, create, "angles", [create, markup])
        if tt is None:
            ck.incomplete(rule, "ExtrudeChartParser::create: no split of the 'angles' attribute recognised")
            continue
        cse = SymExec(create)
        try:
            cpaths = cse.run()
        except Unknown as ex:
            ck.incomplete(rule, "ExtrudeChartParser::create not evaluable: %s" % ex)
            continue
        tok_field = {}
        for k_, t in tt["tok"].items():
            if t.get("parsed") is not None and is_this_field(t["parsed"]):
                tok_field[k_] = strip(t["parsed"])["n"]
        scales = {}
        for fld in tok_field.values():
            vals = set()
            for env, conds, _ in cpaths:
                v = env.get("@" + fld)
                if v is not None:
                    vals.add(sp.simplify(v / sp.Symbol("f_" + fld, real=True)))
            scales[fld] = vals
        setargs = None
        # the setter is called in markup() or in a member helper of the parser class that markup() delegates to
        for n in [x for g_ in facts.functions if (g_.cls == markup.cls or (g_.full or "").startswith(markup.full + "::<lambda")) and g_.tk != "pattern" and g_.body is not None
                  for x in g_.nodes()]:
            if n.get("k") == "MCall" and n.get("n") == sfn.name and len(n.get("a", [])) == len(sfn.params):
                flds = [strip(a)["n"] if is_this_field(a) else None for a in n["a"]]
                setargs = flds if setargs in (None, flds) else "?"
        if not setargs or setargs == "?" or len(tok_field) != 3 or any(len(v) != 1 for v in scales.values()):
            ck.incomplete(rule, "ExtrudeChartParser: binding of the three angle tokens to %s() not recognised (%s, %s, %s)" % (sfn.name, tok_field, setargs, scales))
            continue
        # rotation parameter j <- setter arg order[j] <- field setargs[order[j]] <- token k
        tok_of_param = []
        for j in range(3):
            fld = setargs[order[j]]
            ks = [k_ for k_, f_ in tok_field.items() if f_ == fld]
            tok_of_param.append((ks[0] if ks else None, fld))
        if any(k_ is None for k_, _ in tok_of_param):
            ck.incomplete(rule, "ExtrudeChartParser: a rotation parameter is not fed from a token of 'angles'")
            continue
        # ---- writer paths
        wse = SymExec(wf)
        wse.capture = angle_operands("angles")
        try:
            wpaths = [p_ for p_ in wse.run() if p_[2] is not None]
        except Unknown as ex:
            ck.incomplete(rule, "%s::write not evaluable: %s" % (short(wf.cls), ex))
            continue
        if not wpaths or any(len(p_[2]) != 3 for p_ in wpaths):
            ck.incomplete(rule, "%s::write: emission of three values in attribute 'angles' not recognised" % short(wf.cls))
            continue
        Msym = {ij: sp.Symbol("M_%s_%d_%d" % (field, ij[0], ij[1]), real=True) for ij in Rm}
        rnd = random.Random(11)
        for dname, pval in domains:
            key = "Extrude::write/angles:%s" % dname
            probs.setdefault(key, [])
            unk.setdefault(key, [])
            # 1. which writer path handles this domain (numeric evaluation of the path conditions on sample matrices)
            chosen = set()
            samples = []
            for _ in range(6):
                yv, rv = rnd.uniform(-3, 3), rnd.uniform(-3, 3)
                pv = float(pval) if pval is not None else rnd.uniform(-1.4, 1.4)
                samples.append((yv, pv, rv))
            for yv, pv, rv in samples:
                num = {Msym[ij]: float(e.subs({ang[0]: yv, ang[1]: pv, ang[2]: rv})) for ij, e in Rm.items()}
                num[sp.Symbol("eps", real=True, positive=True)] = 1e-16
                taken = []
                for idx, (env, conds, emitted) in enumerate(wpaths):
                    ok = True
                    for c, want in conds:
                        if c is None or (c.free_symbols & wse.opaque):
                            continue
                        try:
                            v = bool(c.subs(num))
                        except TypeError:
                            continue
                        if v != want:
                            ok = False
                            break
                    if ok:
                        taken.append(tuple(emitted))
                chosen |= set(taken)
            if len(chosen) != 1:
                unk[key].append("%d different angle formulas are reachable for this domain" % len(chosen))
                continue
            emitted = list(chosen)[0]
            # 2. the angles the reader obtains: token k -> scale -> rotation parameter j
            yS, rS, tS = sp.symbols("y r t", real=True)
            pS = pval if pval is not None else sp.atan(tS)
            base = {ang[0]: yS, ang[1]: pS, ang[2]: rS}
            if dname not in r0memo:
                r0memo[dname] = {ij: sp.simplify(e.subs(base)) for ij, e in Rm.items()}
            R0 = r0memo[dname]
            msub = {Msym[ij]: R0[ij] for ij in R0}
            try:
                cs = []
                for j in range(3):
                    k_, fld = tok_of_param[j]
                    a_ = sp.expand(sp.simplify(list(scales[fld])[0] * emitted[k_]).subs(msub))
                    cs.append(angle_cos_sin(sp, a_))
            except Unknown as ex:
                unk[key].append("angle expression not of the form c, atan2(y,x) or -atan2(y,x): %s" % ex)
                continue
            mkey = (dname, tuple(str(c_) for c_ in cs))
            if mkey not in memo:
                R1 = Rof(cs)
                diff = {ij: sp.simplify(sp.trigsimp(R1[ij] - R0[ij])) for ij in R0}
                memo[mkey] = {ij: d for ij, d in diff.items() if d != 0}
            bad = memo[mkey]
            if not bad:
                continue
            # 3. a concrete counterexample makes it definite
            wit = None
            for yv, pv, rv in samples:
                for ij, d in bad.items():
                    try:
                        val = abs(complex(d.subs({yS: yv, rS: rv, tS: sp.tan(pv) if pval is None else 0}).evalf()))
                    except (TypeError, ValueError):
                        continue
                    if val > 1e-6:
                        wit = (yv, pv, rv, ij, val)
                        break
                if wit:
                    break
            if wit:
                two_pi = 2 * 3.141592653589793
                probs[key].append("[%s] the angles written for yaw=%.3f pitch=%.3f roll=%.3f rev give, read back, a rotation matrix whose entry (%d,%d) differs by %.3g from "
                                  "the original (symbolically %s): write -> read -> write does not reproduce the chart" % (
                                      short(wf.cls), wit[0] / two_pi, wit[1] / two_pi, wit[2] / two_pi, wit[3][0], wit[3][1], wit[4], str(bad[wit[3]])[:60]))
            else:
                unk[key].append("identity R(written angles) == R(original) not proven symbolically (%s) and no numeric counterexample found" % list(bad.items())[:1])
        seen_cls.add(wf.cls)
    f0 = sorted(writers, key=lambda f: f.full)[0]
    for key in sorted(set(probs) | set(unk)):
        if unk.get(key) and not probs.get(key):
            undecided(ck, rule, key, "; ".join(sorted(set(unk[key]))))
            continue
        ck.ob(rule, key, not probs.get(key), "; ".join(sorted(set(probs.get(key, [])))[:2]) or
              "reader(writer(reader(yaw,pitch,roll))) == reader(yaw,pitch,roll) proven symbolically (%d Extrude instantiation(s))" % len(seen_cls), f0.file, f0.line)


def angle_cos_sin(sp, e):
    """(cos, sin) of an angle given as a rational multiple of pi, atan2(y, x) or -atan2(y, x), without evaluating atan2"""
    e = sp.expand(e)
    if e.func == sp.atan2:
        Y, X = e.args
        rho = sp.sqrt(X ** 2 + Y ** 2)
        return X / rho, Y / rho
    if e == 0 or (e / sp.pi).is_rational:
        return sp.cos(e), sp.sin(e)
    c, rest = e.as_coeff_Mul()
    if rest.func == sp.atan2 and c in (1, -1):
        cc, ss = angle_cos_sin(sp, rest)
        return cc, c * ss
    raise Unknown(str(e)[:80])



# -------------------------------------------------------------------------------------------------
# E7.ini-state-update: the INI reader's "what did I read last" state is set on every path that consumes a line
# -------------------------------------------------------------------------------------------------

def rule_ini_state(ck, W, rd, chain_nodes):
    """PropertyMap::read keeps a local state variable (which kind of line was read last) that later branches test to refuse
    misplaced lines ('{' only after a section marker, no entry after '}').  Every non-throwing path through a branch that
    recognises a line kind must assign that variable before the next line is read (loop head) or the function returns."""
    rule = "E7.ini-state-update"
    e = W.ecfg(rd)
    # the state variable: a local that is assigned enumerators inside at least two branches of the classification chain
    cand = {}
    for n, p in chain_nodes:
        for x in walk(n.get("then")):
            if x.get("k") == "Assign" and x.get("op") == "=" and strip(x["lhs"]).get("k") == "Ref" and strip(x["lhs"]).get("dk") == "local" \
               and strip(x["rhs"]).get("k") == "Ref" and strip(x["rhs"]).get("dk") == "enum":
                cand.setdefault(strip(x["lhs"])["n"], set()).add(id(n))
    state = sorted(v for v, brs in cand.items() if len(brs) >= 2)
    tested = [v for v in state if any(v in vars_of(rd.by_id(e.cfg.blocks[b]["cond"])) for b in e.el if e.cfg.blocks[b].get("cond") is not None and rd.by_id(e.cfg.blocks[b]["cond"]) is not None)]
    if len(tested) != 1:
        ck.incomplete(rule, "PropertyMap::read: state variable not identified (candidates %s)" % state)
        return
    S = tested[0]
    # the loop that reads the lines: the innermost while/for that contains the chain
    par = e.parents()
    loop = par.get(id(chain_nodes[0][0]))
    while loop is not None and loop.get("k") not in ("While", "For", "Do"):
        loop = par.get(id(loop))
    head = None
    heads = set()
    if loop is not None and strip(loop.get("c")) is not None:
        cids = {x.get("i") for x in walk(loop["c"]) if x.get("i") is not None}
        for b in e.el:
            if e.cfg.blocks[b].get("cond") in cids and e.cfg.blocks[b].get("term") in ("WhileStmt", "ForStmt", "DoStmt", "BinaryOperator"):
                head = b if head is None else head
        # the first block that evaluates the loop condition: the one all back edges lead to
        heads = {b for b in e.el if e.cfg.blocks[b].get("cond") in cids or any(i in cids for i in e.el[b])}
    if loop is not None and not heads:
        # for(;;) / while(true) with the end-of-input test inside the body: the next line is read by the getline call of the loop
        # body that does not belong to a branch of the classification chain
        in_branch = {x.get("i") for n_, _ in chain_nodes for x in walk(n_.get("then")) if x.get("i") is not None}
        gl = {x["i"] for x in walk(loop.get("body")) if x.get("k") == "Call" and re.search(r"getline$", x.get("callee") or "") and x.get("i") is not None and x["i"] not in in_branch}
        heads = {b for b in e.el if any(i in gl for i in e.el[b])}
    if loop is None or not heads:
        ck.incomplete(rule, "PropertyMap::read: the line loop around the classification chain was not recognised")
        return
    assign_ids = {x["i"] for x in rd.nodes() if x.get("k") == "Assign" and x.get("op") == "=" and strip(x["lhs"]).get("k") == "Ref"
                  and strip(x["lhs"])["n"] == S and x.get("i") is not None}
    marked = {b for b in e.el if any(i in assign_ids for i in e.el[b])}
    for n, p in chain_nodes:
        key = "PropertyMap::read/%s" % ("%s:%s" % (p[0], "".join(str(x) for x in p[1:])))
        ids = [x.get("i") for x in walk(n.get("then")) if x.get("i") is not None]
        if not ids:
            continue
        idset = set(ids)
        # entry block of the branch: the block holding its first statement / condition
        entry = None
        for i in sorted(idset):
            for b in e.el:
                if i in e.el[b] or e.cfg.blocks[b].get("cond") == i:
                    entry = b
                    break
            if entry is not None:
                break
        if entry is None:
            undecided(ck, rule, key, "branch body has no statement in the CFG")
            continue
        if entry in marked:
            ck.ob(rule, key, True, "`%s` is assigned at the start of the branch" % S, rd.file, n.get("l"))
            continue
        reach = e.reachable(entry, avoid=marked)
        leaks = [b for b in reach if b in heads or (e.exit in e.succ.get(b, []) and b not in e.throws)]
        if leaks:
            via = [render(x)[:40] for x in walk(n.get("then")) if (x.get("k") in ("Call", "MCall") and any(S in vars_of(a) for a in x.get("a", []))
                                                                  and not MODELLED_CALLEES.match(x.get("callee") or ""))
                   or (x.get("k") == "OpCall" and x.get("op") == "()" and x.get("a") and "lambda" in (rd.ntype(strip(x["a"][0])) or ""))]
            if via:
                undecided(ck, rule, key, "no assignment to `%s` on some path through the branch, but %s may update it" % (S, via))
                continue
            # a shortest path from the branch entry to the leak, for the report
            prev, todo = {entry: None}, [entry]
            while todo:
                b = todo.pop(0)
                for s_ in e.succ.get(b, []):
                    if s_ is not None and s_ not in prev and s_ not in marked:
                        prev[s_] = b
                        todo.append(s_)
            pth, b = [], leaks[0]
            while b is not None:
                pth.append(b)
                b = prev.get(b)
            lines = e.cfg.block_lines(pth[::-1])
            ck.ob(rule, key, False,
                  "a line of this kind can be consumed without updating `%s`: a path through the branch reaches the next line (lines %s) without any assignment to it, "
                  "so the following line is judged against the state left by an earlier line (a misplaced '{' / entry is then accepted)" % (S, [l for l in lines if l][-4:]),
                  rd.file, n.get("l"))
        else:
            ck.ob(rule, key, True, "every non-throwing path through the branch assigns `%s` before the next line is read" % S, rd.file, n.get("l"))
