"""C17 — threaded assembly is race-free, terminates and equals the serial result.

Engines E14 (lock / fence discipline), E7 (CFG path rules), E13 (dispatch contexts by bounded
enumeration), E5 (sympy normal forms of the element ranges).  All facts come from the clang front end
(driver tu/c17_domain_assembler.cpp instantiates DomainAssembler::assemble / assemble_master and
Worker<Job> for five jobs covering the three (need_scatter, need_combine) classes); no FEAT3 code is run.
"""
import itertools
import re

import networkx as nx
import sympy

import featlib
from featlib import Check, walk, render, is_call, rel, children

DA = featlib.repo_path("kernel/assembly/domain_assembler.hpp")
TH = featlib.repo_path("kernel/util/thread.hpp")
FILES = DA + "|" + TH + "|/verif/tu/c17_"
NMAX = 5            # bound of the (id, num_workers) enumeration of E13
SENT = (1 << 64) - 1
TASK_CALLS = ("prepare", "assemble", "scatter", "finish", "combine")   # DomainAssemblyJob::Task interface (doxygen, domain_assembler.hpp)


class Unknown(Exception):
    pass


# -------------------------------------------------------------------------------------------------
# per-function index: parents, CFG positions, position-level reachability
# -------------------------------------------------------------------------------------------------

class FX:
    def __init__(self, fn):
        self.fn = fn
        self.cfg = fn.cfg
        self.parent = {}
        for n in fn.nodes():
            for c in children(n):
                self.parent[id(c)] = n
        self.cond_block = {}
        if self.cfg is not None:
            for b in self.cfg.blocks.values():
                if b.get("cond") is not None:
                    self.cond_block.setdefault(b["cond"], b["id"])

    def ancestors(self, n):
        p = self.parent.get(id(n))
        while p is not None:
            yield p
            p = self.parent.get(id(p))

    def pos(self, n):
        """(block, index) at which node n is evaluated: nearest ancestor-or-self listed in a CFG block
        or being a block's branch condition (index = len(el))"""
        x = n
        while x is not None:
            i = x.get("i")
            if i is not None:
                w = self.cfg.block_of(i)
                if w is not None:
                    return w
                if i in self.cond_block:
                    b = self.cond_block[i]
                    return (b, len(self.cfg.blocks[b]["el"]))
            x = self.parent.get(id(x))
        return None

    def dominates(self, a, b):
        """position a is passed on every path entry -> position b"""
        if a is None or b is None:
            return False
        if a[0] == b[0]:
            return a[1] < b[1]
        return a[0] in self.cfg.dom.get(b[0], ())

    def reach(self, start, target_stmts=(), target_blocks=(), avoid_stmts=(), avoid_blocks=(), cut_edges=()):
        """first target reachable from position `start` (exclusive of the statement at start[1]-1)
        without executing a statement in avoid_stmts, entering a block of avoid_blocks or taking an
        edge of cut_edges; None if no target is reachable.  Returns ("stmt", id) / ("block", id)."""
        cfg = self.cfg
        target_stmts, avoid_stmts = set(target_stmts), set(avoid_stmts)
        target_blocks, avoid_blocks, cut_edges = set(target_blocks), set(avoid_blocks), set(cut_edges)
        seen = set()
        stack = [(start[0], start[1])]
        first = True
        while stack:
            b, k = stack.pop()
            if not first or k == 0:
                if b in avoid_blocks:
                    continue
                if b in target_blocks:
                    return ("block", b)
                if b in seen:
                    continue
                seen.add(b)
            first = False
            el = cfg.blocks[b]["el"]
            stop = False
            for e in el[k:]:
                if e in avoid_stmts:
                    stop = True
                    break
                if e in target_stmts:
                    return ("stmt", e)
            if stop:
                continue
            for s in cfg.succ.get(b, []):
                if (b, s) in cut_edges:
                    continue
                stack.append((s, 0))
        return None

    def guards(self, n, stop=None):
        """[(cond node, polarity)] of the If statements enclosing n (innermost last)"""
        out = []
        child = n
        for p in self.ancestors(n):
            if p is stop:
                break
            if p.get("k") == "If":
                if child is p.get("then"):
                    out.append((p["c"], True))
                elif child is p.get("else"):
                    out.append((p["c"], False))
            child = p
        return out[::-1]

    def enclosing_loops(self, n):
        return [p for p in self.ancestors(n) if p.get("k") in ("For", "While", "Do", "ForRange")]

    def header_block(self, loop):
        """CFG block evaluating the loop condition of a For/While; for ForRange the block with the
        CXXForRangeStmt terminator whose body successor contains the body's statements"""
        cfg = self.cfg
        if loop.get("k") in ("For", "While") and loop.get("c") is not None:
            c = loop["c"]
            for x in walk(c):
                i = x.get("i")
                if i in self.cond_block and cfg.blocks[self.cond_block[i]].get("term") in ("ForStmt", "WhileStmt"):
                    return self.cond_block[i]
            return None
        if loop.get("k") == "ForRange":
            body_ids = {x.get("i") for x in walk(loop.get("body")) if x.get("i") is not None}
            for b in cfg.blocks.values():
                if b.get("term") == "CXXForRangeStmt" and cfg.succ.get(b["id"]):
                    s0 = cfg.succ[b["id"]][0]
                    if set(cfg.blocks[s0]["el"]) & body_ids:
                        return b["id"]
        return None


def single_def_inits(fn):
    """decl id -> init node of locals that are initialised once and never assigned/incremented"""
    inits, dirty = {}, set()
    for n in fn.nodes():
        if n.get("k") == "Var" and n.get("init") is not None and n.get("d") is not None:
            inits[n["d"]] = n["init"]
        elif n.get("k") == "Assign" and strip(n["lhs"]).get("k") == "Ref":
            dirty.add(strip(n["lhs"]).get("d"))
        elif n.get("k") == "Un" and n.get("op") in ("++", "--") and strip(n["e"]).get("k") == "Ref":
            dirty.add(strip(n["e"]).get("d"))
    return {d: i for d, i in inits.items() if d not in dirty}


def strip(n):
    while n is not None and n.get("k") == "Cast":
        n = n.get("e")
    return n


def this_field(n):
    """name of the field if n is `this->field` (after casts), else None"""
    n = strip(n)
    if n is not None and n.get("k") == "Member" and n.get("field") and (n.get("b") or {}).get("k") == "This":
        return n["n"]
    return None


def is_unsigned(t):
    t = t or ""
    return any(s in t for s in ("size_t", "size_type", "Index", "unsigned"))


# -------------------------------------------------------------------------------------------------
# concrete evaluator (bounded enumeration) and sympy normal forms
# -------------------------------------------------------------------------------------------------

class Env:
    def __init__(self, fields=None, locs=None, consts=None, sizes=None):
        self.fields = dict(fields or {})      # this->field -> int
        self.locs = dict(locs or {})          # decl id -> int
        self.consts = dict(consts or {})      # qualified name of a static constant -> int
        self.sizes = dict(sizes or {})        # this->vec.size() -> int
        self.inits = {}                       # decl id -> initialiser of a local that is never re-assigned
        self.wrapped = []


def ev(fn, n, env):
    n = strip(n)
    k = n.get("k")
    if k == "Int":
        return int(n["v"])
    if k == "Bool":
        return 1 if n["v"] else 0
    if k == "Ref":
        if n.get("d") in env.locs:
            return env.locs[n["d"]]
        if "v" in n:
            return int(n["v"])
        if n.get("d") in env.inits:
            return ev(fn, env.inits[n["d"]], env)
        if n.get("qn") in env.consts:
            return env.consts[n["qn"]]
        raise Unknown(render(n))
    if k == "Member":
        f = this_field(n)
        if f is not None:
            if f in env.fields:
                return env.fields[f]
            raise Unknown(render(n))
        if not n.get("field") and n.get("qn") in env.consts:
            return env.consts[n["qn"]]
        raise Unknown(render(n))
    if k == "Un":
        v = ev(fn, n["e"], env)
        if n["op"] == "!":
            return 0 if v else 1
        if n["op"] == "-":
            return -v
        if n["op"] == "~":
            return SENT - v if is_unsigned(fn.ntype(n)) else ~v
        raise Unknown(render(n))
    if k == "Bin":
        op = n["op"]
        if op == "&&":
            return 1 if (ev(fn, n["lhs"], env) and ev(fn, n["rhs"], env)) else 0
        if op == "||":
            return 1 if (ev(fn, n["lhs"], env) or ev(fn, n["rhs"], env)) else 0
        a, b = ev(fn, n["lhs"], env), ev(fn, n["rhs"], env)
        if op in ("+", "-", "*"):
            r = a + b if op == "+" else a - b if op == "-" else a * b
            if r < 0 and is_unsigned(fn.ntype(n)):
                env.wrapped.append(render(n))
                r += 1 << 64
            return r
        if op == "/":
            if b == 0:
                raise Unknown("division by zero in " + render(n))
            return a // b
        if op in ("<", "<=", ">", ">=", "==", "!="):
            return 1 if {"<": a < b, "<=": a <= b, ">": a > b, ">=": a >= b, "==": a == b, "!=": a != b}[op] else 0
        raise Unknown(render(n))
    if k == "MCall" and n.get("n") == "size" and not n.get("a"):
        f = this_field(n.get("obj"))
        if f is not None and f in env.sizes:
            return env.sizes[f]
        raise Unknown(render(n))
    if k == "Call" and re.search(r"::(min|max)$", n.get("callee", "")) and len(n.get("a", [])) == 2:
        a, b = ev(fn, n["a"][0], env), ev(fn, n["a"][1], env)
        return min(a, b) if n["callee"].endswith("min") else max(a, b)
    if k == "Cond":
        return ev(fn, n["then"], env) if ev(fn, n["c"], env) else ev(fn, n["else"], env)
    raise Unknown(render(n))


SENTINEL = sympy.Symbol("SENTINEL")


def VF(name):
    """integer-valued uninterpreted function for the entries of an Index vector"""
    return sympy.Function(name, integer=True)


def sx(fn, n, sym):
    """sympy normal form of an index expression.  `sym` maps ('f', field) / ('l', decl id) to sympy
    expressions; vectors this->V are uninterpreted functions V(.) with size symbol size_V"""
    n = strip(n)
    k = n.get("k")
    if k == "Int":
        return sympy.Integer(int(n["v"]))
    if k == "Ref":
        if ("l", n.get("d")) in sym:
            return sym[("l", n["d"])]
        if "v" in n:
            return sympy.Integer(int(n["v"]))
        raise Unknown(render(n))
    if k == "Member":
        f = this_field(n)
        if f is not None:
            return sym.get(("f", f), sympy.Symbol(f, integer=True, nonnegative=True))
        raise Unknown(render(n))
    if k == "Un" and n["op"] == "~":
        v = sx(fn, n["e"], sym)
        if v == 0:
            return SENTINEL
        raise Unknown(render(n))
    if k == "Bin" and n["op"] in ("+", "-", "*", "/"):
        a, b = sx(fn, n["lhs"], sym), sx(fn, n["rhs"], sym)
        if n["op"] == "+":
            return a + b
        if n["op"] == "-":
            return a - b
        if n["op"] == "*":
            return sympy.expand(a * b)
        return sympy.floor(a / b)
    if k in ("MCall", "OpCall"):
        if k == "MCall":
            obj, name, args = n.get("obj"), n.get("n"), n.get("a", [])
        else:
            if n.get("op") != "[]":
                raise Unknown(render(n))
            obj, name, args = n["a"][0], "at", n["a"][1:]
        f = this_field(obj)
        if f is None:
            raise Unknown(render(n))
        f = sym.get(("v", f), f)
        F = VF(f)
        size = sympy.Symbol("size_" + f, integer=True, nonnegative=True)
        if name in ("at", "operator[]") and len(args) == 1:
            return F(sx(fn, args[0], sym))
        if name == "size" and not args:
            return size
        if name == "front" and not args:
            return F(sympy.Integer(0))
        if name == "back" and not args:
            return F(size - 1)
    raise Unknown(render(n))


def short_job(cls):
    m = re.search(r"Worker<FEAT::Assembly::(\w+)", cls) or re.search(r"<FEAT::Assembly::(\w+)", cls)
    return m.group(1) if m else cls[-40:]


# -------------------------------------------------------------------------------------------------
# switch segments, loops
# -------------------------------------------------------------------------------------------------

def switch_segments(sw):
    """[(labels, [statements])] of a Switch whose groups end with Break; labels = enum values (int)
    or 'default'.  Raises Unknown on fall-through between non-empty groups."""
    body = sw.get("body")
    if body is None or body.get("k") != "Block":
        raise Unknown("switch body is not a block")
    segs = []
    labels, stmts, closed = [], [], True
    for st in body.get("s", []):
        x = st
        new_labels = []
        while x is not None and x.get("k") in ("Case", "Default"):
            if x["k"] == "Case":
                v = x.get("v") or {}
                if "v" not in v:
                    raise Unknown("case label without constant value")
                new_labels.append(int(v["v"]))
            else:
                new_labels.append("default")
            x = x.get("s")
        if new_labels:
            if stmts and not closed:
                raise Unknown("fall-through between switch groups")
            if stmts:
                segs.append((labels, stmts))
                labels, stmts = [], []
            labels = labels + new_labels
            closed = False
        if x is None:
            continue
        if x.get("k") == "Break":
            segs.append((labels, stmts))
            labels, stmts, closed = [], [], True
            continue
        stmts.append(x)
    if labels or stmts:
        segs.append((labels, stmts))
    return segs


def loop_normal(fx, loop):
    """(var decl id, init node, cond node, step) of a canonical counting For loop, else None"""
    if loop.get("k") != "For":
        return None
    init, c, inc = loop.get("init"), loop.get("c"), loop.get("inc")
    if init is None or c is None or inc is None or init.get("k") != "Decl" or len(init.get("vars", [])) != 1:
        return None
    v = init["vars"][0]
    inc = strip(inc)
    if inc.get("k") == "Un" and inc["op"] in ("++", "--") and strip(inc["e"]).get("d") == v["d"]:
        step = 1 if inc["op"] == "++" else -1
    else:
        return None
    return (v["d"], v.get("init"), c, step)


# -------------------------------------------------------------------------------------------------
# program model: ThreadFence, Worker<Job> per job, DomainAssembler functions
# -------------------------------------------------------------------------------------------------

LOCK_CLS = re.compile(r"^std::(unique_lock|lock_guard|scoped_lock)<")


def lock_decls(fx):
    """RAII lock objects: [(Var node, mutex expression node)] for `std::unique_lock<std::mutex> l(m)`"""
    out = []
    for n in fx.fn.nodes():
        if n.get("k") == "Var" and n.get("init") is not None:
            c = strip(n["init"])
            if c.get("k") in ("Construct", "TempObj") and LOCK_CLS.match(c.get("ccls", "") or "") and len(c.get("a", [])) == 1:
                out.append((n, strip(c["a"][0])))
    return out


def lock_held_at(fx, use, mutex_pred):
    """name of a mutex m with mutex_pred(m expr) such that a lock on m is held at node `use`:
    an RAII lock object whose declaration dominates the use, whose scope encloses it and which is
    not unlocked/released on a path to it; or an explicit m.lock() dominating the use with no
    m.unlock() on a path between.  None if no lock is held."""
    upos = fx.pos(use)
    anc = {id(a) for a in fx.ancestors(use)}
    for var, m in lock_decls(fx):
        if not mutex_pred(m):
            continue
        dpos = fx.pos(var)
        scope = None
        for p in fx.ancestors(var):
            if p.get("k") == "Block":
                scope = p
                break
        if scope is None or id(scope) not in anc or not fx.dominates(dpos, upos):
            continue
        released = [x for x in fx.fn.nodes() if x.get("k") == "MCall" and x.get("n") in ("unlock", "release")
                    and strip(x.get("obj") or {}).get("d") == var["d"]]
        if any(pos_reaches(fx, fx.pos(r), upos) for r in released):
            continue
        return render(m)
    for n in fx.fn.nodes():
        if n.get("k") == "MCall" and n.get("n") == "lock" and n.get("ccls") == "std::mutex" and mutex_pred(strip(n.get("obj"))):
            lpos = fx.pos(n)
            if not fx.dominates(lpos, upos):
                continue
            unl = [x["i"] for x in fx.fn.nodes() if x.get("k") == "MCall" and x.get("n") == "unlock" and x.get("ccls") == "std::mutex"
                   and render(strip(x.get("obj"))) == render(strip(n.get("obj")))]
            tgt = use.get("i")
            if tgt is None or fx.cfg.block_of(tgt) is None:
                continue
            if fx.reach((lpos[0], lpos[1] + 1), target_stmts=[tgt], avoid_stmts=unl) is None:
                continue
            # no path lock -> unlock -> use
            if any(fx.reach(fx.pos(fx.fn.by_id(u)), target_stmts=[tgt], avoid_stmts=[n["i"]]) for u in unl):
                continue
            return render(strip(n.get("obj")))
    return None


def pos_reaches(fx, a, b):
    """some path leads from position a to position b"""
    if a is None or b is None:
        return True
    if a[0] == b[0] and a[1] < b[1]:
        return True
    return fx.reach((a[0], a[1] + 1), target_blocks=[b[0]]) is not None


class WorkerModel:
    """Worker<Job>: constructor role map, operator(), dispatch targets"""

    def __init__(self, facts, cls, consts):
        self.cls = cls
        self.job = short_job(cls)
        self.consts = consts
        fns = [f for f in facts.functions if f.cls == cls]
        self.ctor = next((f for f in fns if f.d.get("ctor") and len(f.params) >= 3), None)
        self.call_op = next((f for f in fns if f.name == "operator()"), None)
        self.methods = {f.name: f for f in fns if not f.d.get("ctor")}
        self.role = {}      # field -> ctor parameter name
        if self.ctor is not None:
            for i in self.ctor.d.get("inits", []) or []:
                x = strip(i.get("init") or {})
                if x.get("k") == "Ref" and x.get("dk") == "param" and i.get("member"):
                    self.role[i["member"]] = x["n"]
        self.field_of = {v: k for k, v in self.role.items()}
        self._fx = {}

    def fx(self, fn):
        if fn.full not in self._fx:
            self._fx[fn.full] = FX(fn)
        return self._fx[fn.full]

    def flag(self, name):
        """value of the Task's static flag as read by the worker code (`task->need_scatter`)"""
        for f in self.methods.values():
            for n in f.nodes():
                if n.get("k") == "Member" and n.get("n") == name and not n.get("field"):
                    if n.get("qn") in self.consts:
                        return self.consts[n["qn"]]
        return None

    def env(self, ident, nwork, strategy):
        e = Env(consts=self.consts)
        for role, val in (("id", ident), ("num_workers", nwork), ("strategy", strategy)):
            f = self.field_of.get(role)
            if f is not None and val is not None:
                e.fields[f] = val
        return e

    def dispatch(self, ident, nwork, strategy):
        """set of variant method names operator() can call in this context (concrete CFG walk)"""
        fn = self.call_op
        fx = self.fx(fn)
        env = self.env(ident, nwork, strategy)
        out = set()
        seen = set()
        st = [fx.cfg.entry]
        while st:
            b = st.pop()
            if b in seen:
                continue
            seen.add(b)
            blk = fx.cfg.blocks[b]
            if blk.get("term") == "CXXTryStmt":
                continue        # handler dispatch block: exceptional flow only
            for e in blk["el"]:
                n = fn.by_id(e)
                if n is not None and n.get("k") == "MCall" and (n.get("obj") or {}).get("k") == "This" and n.get("n") in self.methods and n.get("n") != "operator()":
                    out.add(n["n"])
            succ = fx.cfg.succ.get(b, [])
            if blk.get("cond") is not None and len(blk.get("succ", [])) == 2:
                try:
                    v = ev(fn, fn.by_id(blk["cond"]), env)
                    s = blk["succ"][0 if v else 1]
                    if s is not None:
                        st.append(s)
                    continue
                except Unknown:
                    pass
            st.extend(succ)
        return out


def task_call(n, name=None):
    """n is `task->name()` on a unique_ptr<TaskType> parameter/local"""
    if n.get("k") != "MCall" or n.get("n") not in TASK_CALLS:
        return False
    if name is not None and n.get("n") != name:
        return False
    o = strip(n.get("obj") or {})
    if o.get("k") == "OpCall" and o.get("op") == "->" and o.get("a"):
        o = strip(o["a"][0])
    return o.get("k") == "Ref" and o.get("dk") in ("param", "local")


def fence_call(n):
    return n.get("k") == "MCall" and n.get("callee") in ("FEAT::ThreadFence::wait", "FEAT::ThreadFence::open", "FEAT::ThreadFence::close")


def resolve_alias(fx, n):
    """follow reference locals (`auto& f = this->_thread_fences.at(i)`) to their initialiser"""
    n = strip(n)
    hops = 0
    while n is not None and n.get("k") == "Ref" and n.get("dk") == "local" and hops < 4:
        var = next((v for v in fx.fn.nodes() if v.get("k") == "Var" and v.get("d") == n["d"]), None)
        if var is None or not var.get("ref") or var.get("init") is None or (fx.parent.get(id(var)) or {}).get("k") == "ForRange":
            break
        n = strip(var["init"])
        hops += 1
    return n


def fence_of(fx, call, fences_field, sym, own=None, forall=None):
    """classify the receiver of a ThreadFence call: 'START' (front), 'END' (back), 'ALL' (range-for
    element), 'OWN'/'NEXT' (index relative to `own`), ('IDX', expr) otherwise"""
    o = resolve_alias(fx, call.get("obj"))
    if o is None:
        raise Unknown("fence receiver")
    if o.get("k") == "Ref":
        # range-for variable over the fences vector
        for p in fx.fn.nodes():
            if p.get("k") == "ForRange" and (p.get("var") or {}).get("d") == o.get("d") and this_field(p.get("range")) == fences_field:
                return "ALL"
        raise Unknown("fence receiver " + render(o))
    if o.get("k") in ("MCall", "OpCall"):
        if o.get("k") == "MCall":
            base, name, args = o.get("obj"), o.get("n"), o.get("a", [])
        else:
            base, name, args = o["a"][0], "at", o["a"][1:]
        if this_field(base) != fences_field:
            raise Unknown("fence receiver " + render(o))
        if name == "front":
            return "START"
        if name == "back":
            return "END"
        if name in ("at", "operator[]") and len(args) == 1:
            e = sx(fx.fn, args[0], sym)
            if own is not None and sympy.simplify(e - own) == 0:
                return "OWN"
            if own is not None and sympy.simplify(e - own - 1) == 0:
                return "NEXT"
            return ("IDX", str(e))
    raise Unknown("fence receiver " + render(o))


# -------------------------------------------------------------------------------------------------
# clause 1: ThreadFence
# -------------------------------------------------------------------------------------------------

def straight_assigns(fn):
    """field -> constant/param assigned by a branch-free method body (chained `a = b = v` included)"""
    out = {}
    if any(n.get("k") in ("If", "For", "While", "Do", "Switch", "Cond") for n in fn.nodes()):
        raise Unknown("branches in " + fn.full)

    def val(n):
        n = strip(n)
        if n.get("k") == "Assign":
            return val(n["rhs"])
        return n
    for n in fn.nodes():
        if n.get("k") == "Assign" and n.get("op") == "=":
            f = this_field(n["lhs"])
            if f is not None:
                out[f] = val(n["rhs"])
    return out


def rule_fence(ck, facts):
    R = "E14.fence-guarded"
    fns = [f for f in facts.functions if f.cls == "FEAT::ThreadFence"]
    ctor = next((f for f in fns if f.d.get("ctor")), None)
    meth = {f.name: f for f in fns if not f.d.get("ctor") and not f.d.get("dtor")}
    if ctor is None or not all(m in meth for m in ("wait", "open", "close")):
        ck.incomplete(R, "FEAT::ThreadFence constructor/wait/open/close not found in kernel/util/thread.hpp")
        return
    is_sync = lambda t: ("std::mutex" in t) or ("condition_variable" in t)
    state = set()
    for f in fns:
        for i in f.d.get("inits", []) or []:
            if i.get("member"):
                state.add(i["member"])
        for n in f.nodes():
            fld = this_field(n)
            if fld is not None and n.get("k") == "Member" and not is_sync(f.ntype(n)):
                state.add(fld)
    mutex_of = {}
    for name, f in sorted(meth.items()):
        fx = FX(f)
        per_field = {}
        for n in f.nodes():
            fld = this_field(n)
            if n.get("k") != "Member" or fld not in state:
                continue
            m = lock_held_at(fx, n, lambda e: this_field(e) is not None and "std::mutex" in f.ntype(e))
            per_field.setdefault(fld, []).append((m, n.get("l")))
        for fld, acc in sorted(per_field.items()):
            bad = [l for m, l in acc if m is None]
            ck.ob(R, "ThreadFence::%s/%s" % (name, fld), not bad,
                  "state member %s is accessed in ThreadFence::%s at line(s) %s without a lock on the fence mutex that dominates the access and is still held" % (fld, name, bad) if bad
                  else "every access to %s in %s() is dominated by a live lock on %s" % (fld, name, acc[0][0]), f.file, f.line)
            for m, l in acc:
                if m is not None:
                    mutex_of.setdefault(name, set()).add(m)
    allm = set().union(*mutex_of.values()) if mutex_of else set()
    ck.ob("E14.fence-one-mutex", "ThreadFence/mutex", len(allm) == 1,
          "wait/open/close lock the mutex(es) %s; mutual exclusion of the state needs one and the same mutex" % sorted(allm), meth["wait"].file, meth["wait"].line)

    # --- wait(): condition wait inside a loop on the state predicate
    R = "E14.fence-wait-loop"
    w = meth["wait"]
    fx = FX(w)
    cw = [n for n in w.nodes() if n.get("k") == "MCall" and n.get("callee", "").startswith("std::condition_variable::wait")]
    pred_cond = None
    if len(cw) != 1:
        ck.incomplete(R, "ThreadFence::wait: expected exactly one condition_variable wait, found %d" % len(cw))
    else:
        c = cw[0]
        cvar_wait = render(strip(c.get("obj")))
        if len(c.get("a", [])) >= 2:
            lam = strip(c["a"][1])
            reads = {this_field(x) for x in walk(lam)} & state if lam.get("k") == "Lambda" else set()
            ck.ob(R, "ThreadFence::wait/predicate-loop", bool(reads),
                  "condition_variable::wait(lock, pred): predicate reads state %s" % sorted(reads), w.file, c.get("l"))
            ck.incomplete(R, "ThreadFence::wait uses the predicate overload; the fence state machine rule models the while-loop form only")
        else:
            # every path from the wait call to the exit re-tests a branch condition that reads the state
            cblocks = [b["id"] for b in fx.cfg.blocks.values() if b.get("cond") is not None and b.get("term") in ("WhileStmt", "DoStmt", "ForStmt")
                       and ({this_field(x) for x in walk(w.by_id(b["cond"]))} & state)]
            pos = fx.pos(c)
            esc = fx.reach((pos[0], pos[1] + 1), target_blocks=[fx.cfg.exit], avoid_blocks=cblocks)
            loops = fx.enclosing_loops(c)
            ok = esc is None and bool(cblocks) and bool(loops)
            ck.ob(R, "ThreadFence::wait/predicate-loop", ok,
                  "after _cvar.wait() returns the state predicate is re-tested by a loop condition before wait() can return (spurious wake-ups)" if ok
                  else "condition_variable::wait at line %s is not inside a loop whose condition re-tests the fence state on every path to the return: a spurious wake-up lets wait() return while the fence is closed" % c.get("l"),
                  w.file, c.get("l"))
            if loops and loops[0].get("k") == "While":
                pred_cond = loops[0]["c"]

    # --- state machine: ctor/close block, open releases; okay round trip
    R = "E14.fence-state-machine"
    if pred_cond is None:
        ck.incomplete(R, "ThreadFence::wait: blocking predicate (while-condition) not identified")
    else:
        def blocked(assign, fn):
            env = Env()
            for fld, v in assign.items():
                v = strip(v)
                if v.get("k") == "Bool":
                    env.fields[fld] = 1 if v["v"] else 0
            return ev(w, pred_cond, env)
        try:
            init = {i["member"]: i["init"] for i in ctor.d.get("inits", []) or [] if i.get("member") and i.get("init")}
            for who, assign, fn, want in (("ThreadFence()", init, ctor, 1), ("close", straight_assigns(meth["close"]), meth["close"], 1),
                                          ("open", straight_assigns(meth["open"]), meth["open"], 0)):
                try:
                    b = blocked(assign, fn)
                    ck.ob(R, "ThreadFence/%s" % who, b == want,
                          "after %s the wait predicate `%s` is %s (%s expected: the fence must %s)" % (who, render(pred_cond), bool(b), bool(want), "block" if want else "let waiters pass"),
                          fn.file, fn.line)
                except Unknown as e:
                    ck.incomplete(R, "%s does not set the state read by the wait predicate to constants (%s)" % (who, e))
        except Unknown as e:
            ck.incomplete(R, str(e))
    R = "E14.fence-okay-roundtrip"
    rets = [n for n in w.nodes() if n.get("k") == "Return"]
    op = meth["open"]
    try:
        oas = straight_assigns(op)
        rf = this_field(rets[0].get("e")) if len(rets) == 1 else None
        src = strip(oas.get(rf) or {}) if rf else {}
        ok = rf is not None and src.get("k") == "Ref" and src.get("dk") == "param" and len(op.params) == 1
        ck.ob(R, "ThreadFence/wait-returns-open-argument", ok,
              "wait() returns %s, which open(%s) sets from its parameter" % (rf, op.params[0]["n"] if op.params else "") if ok
              else "wait() returns `%s` but open() does not store its parameter there: a failed neighbour/worker is not seen by the waiter" % render(rets[0].get("e") if rets else None),
              w.file, rets[0].get("l") if rets else w.line)
    except Unknown as e:
        ck.incomplete(R, str(e))

    # --- open(): notify on every path, not before the state is set unless the lock is held
    R = "E14.fence-notify"
    fxo = FX(op)
    nts = [n for n in op.nodes() if n.get("k") == "MCall" and n.get("callee") in ("std::condition_variable::notify_all",)]
    one = [n for n in op.nodes() if n.get("k") == "MCall" and n.get("callee") == "std::condition_variable::notify_one"]
    if one:
        ck.ob(R, "ThreadFence::open/notify", False, "open() uses notify_one: several threads can wait on one fence (all workers wait on the start fence)", op.file, one[0].get("l"))
    elif not nts:
        ck.ob(R, "ThreadFence::open/notify", False, "open() never calls notify_all on the condition variable: waiting threads are not woken", op.file, op.line)
    else:
        ids = [n["i"] for n in nts]
        esc = fxo.reach((fxo.cfg.entry, 0), target_blocks=[fxo.cfg.exit], avoid_stmts=ids)
        sets = [n for n in op.nodes() if n.get("k") == "Assign" and this_field(n["lhs"]) in state and fxo.cfg.block_of(n["i"]) is not None]
        bad = []
        for nt in nts:
            held = lock_held_at(fxo, nt, lambda e: this_field(e) is not None and "std::mutex" in op.ntype(e))
            for s_ in sets:
                if not fxo.dominates(fxo.pos(s_), fxo.pos(nt)) and held is None:
                    bad.append("notify_all (line %s) can run before `%s` (line %s) with the fence mutex not held: a waiter re-tests the predicate, sleeps again and the wake-up is lost" % (nt.get("l"), render(s_), s_.get("l")))
        same_cv = cw and all(render(strip(n.get("obj"))) == render(strip(cw[0].get("obj"))) for n in nts)
        ok = esc is None and not bad and same_cv
        ck.ob(R, "ThreadFence::open/notify", ok,
              "every path through open() notifies all waiters of the condition variable wait() sleeps on, after the state is set or under the fence mutex" if ok
              else ("; ".join(bad) or ("a path through open() skips notify_all" if esc is not None else "open() notifies a different condition variable than wait() sleeps on")),
              op.file, nts[0].get("l"))


# -------------------------------------------------------------------------------------------------
# DomainAssembler model: construction sites, abstract contexts (E13)
# -------------------------------------------------------------------------------------------------

def path_conditions(fx, block):
    """[(cond node, required truth)] of the two-way branches dominating `block` of which only one
    edge leads to it"""
    cfg = fx.cfg
    out = []
    for d in cfg.dom.get(block, ()):
        if d == block:
            continue
        blk = cfg.blocks[d]
        ss = blk.get("succ", [])
        if blk.get("cond") is None or len(ss) != 2 or ss[0] is None or ss[1] is None:
            continue
        r0 = block in cfg.reachable(ss[0], avoid=(d,))
        r1 = block in cfg.reachable(ss[1], avoid=(d,))
        if r0 != r1:
            c = fx.fn.by_id(blk["cond"])
            if c is not None:
                out.append((c, r0))
    return out


class Site:
    """one `Worker<Job>(job, id, num_workers, ...)` construction"""

    def __init__(self, fx, node):
        self.fx = fx
        self.node = node
        self.fn = fx.fn
        pn = node.get("pn", [])
        self.arg = {pn[i]: a for i, a in enumerate(node.get("a", [])) if i < len(pn)}
        self.where = fx.fn.name

    def contexts(self):
        """set of (id, num_workers) values the constructor can receive, by enumeration of the free
        integer fields / loop variables up to NMAX under the evaluable dominating path conditions"""
        fx, fn = self.fx, self.fn
        pos = fx.pos(self.node)
        conds = path_conditions(fx, pos[0])
        exprs = [self.arg.get("id"), self.arg.get("num_workers")] + [c for c, _ in conds]
        inits = single_def_inits(fn)
        fields, locs = set(), {}
        todo = list(exprs)
        while todo:
            e = todo.pop()
            for x in walk(e):
                f = this_field(x)
                if x.get("k") == "Member" and f is not None and "vector" not in fn.ntype(x) and is_unsigned(fn.ntype(x)):
                    fields.add(f)
                if x.get("k") == "Ref" and x.get("dk") == "local" and x["d"] not in locs:
                    if x["d"] in inits:
                        todo.append(inits[x["d"]])
                    elif any(x is y for a_ in (self.arg.get("id"), self.arg.get("num_workers")) for y in walk(a_)) or \
                            any(loop_normal(fx, lp) and loop_normal(fx, lp)[0] == x["d"] for lp in fx.enclosing_loops(self.node)):
                        locs[x["d"]] = x["n"]
        lower = {}
        for lp in fx.enclosing_loops(self.node):
            ln = loop_normal(fx, lp)
            if ln and ln[0] in locs and ln[3] == 1:
                try:
                    lower[ln[0]] = ev(fn, ln[1], Env())
                except Unknown:
                    lower[ln[0]] = 0
        for d in list(locs):
            if d not in lower:
                raise Unknown("local `%s` in a Worker constructor argument is not a counting loop variable" % locs[d])
        fields = sorted(fields)
        lds = sorted(lower)
        out = set()
        for vals in itertools.product(range(NMAX + 1), repeat=len(fields) + len(lds)):
            env = Env(fields=dict(zip(fields, vals[:len(fields)])), locs=dict(zip(lds, vals[len(fields):])))
            env.inits = inits
            if any(env.locs[d] < lower[d] for d in lds):
                continue
            feasible = True
            for c, want in conds:
                try:
                    if bool(ev(fn, c, env)) != want:
                        feasible = False
                        break
                except Unknown:
                    pass
            if not feasible:
                continue
            out.add((ev(fn, self.arg["id"], env), ev(fn, self.arg["num_workers"], env)))
        return out


class JobModel:
    def __init__(self, facts, wm, tag):
        self.wm = wm
        self.tag = tag
        self.job = wm.job
        self.name = "Worker<%s>%s" % (wm.job, tag)
        self.sites = []
        self.assemble = None
        self.master = None
        for f in facts.functions:
            if "::Worker<" in f.cls or f.name not in ("assemble", "assemble_master"):
                continue
            cons = [n for n in f.nodes() if n.get("k") in ("Construct", "TempObj") and n.get("ccls") == wm.cls and len(n.get("a", [])) >= 3]
            if not cons:
                continue
            fx = FX(f)
            if f.name == "assemble":
                self.assemble = fx
            else:
                self.master = fx
            for c in cons:
                self.sites.append(Site(fx, c))


def build_models(facts, tag=""):
    consts = {}
    for f in facts.functions:
        for n in f.nodes():
            if n.get("k") == "Ref" and n.get("dk") == "smember" and "v" in n and n.get("qn"):
                consts[n["qn"]] = int(n["v"])
    classes = sorted({f.cls for f in facts.functions if re.search(r"DomainAssembler<.*>::Worker<", f.cls) and f.name == "operator()"})
    jobs = []
    for cls in classes:
        jobs.append(JobModel(facts, WorkerModel(facts, cls, consts), tag))
    return jobs


def compile_model(facts):
    """(enum values of ThreadingStrategy by name, set of strategy values for which _compile can set a
    non-zero worker count, name of the worker-count field)"""
    comp = next((f for f in facts.functions if f.name == "_compile" and "::Worker<" not in f.cls), None)
    if comp is None:
        raise Unknown("DomainAssembler::_compile not found")
    enum = {}
    for f in facts.functions:
        for n in f.nodes():
            if n.get("k") == "Ref" and n.get("dk") == "enum" and "ThreadingStrategy::" in (n.get("qn") or ""):
                enum[n["qn"].rsplit("::", 1)[-1]] = int(n["v"])
    # field the Worker receives as num_workers at the assemble() site is found by the caller;
    # here: which switch groups call a member function that assigns an unsigned count field
    sws = [n for n in comp.nodes() if n.get("k") == "Switch"]
    if len(sws) != 1:
        raise Unknown("_compile: expected one switch over the strategy")
    assigns = {}
    for f in facts.functions:
        if f.cls == comp.cls:
            s = {this_field(n["lhs"]) for n in f.nodes() if n.get("k") == "Assign" and this_field(n["lhs"])}
            assigns[f.name] = s
    can = {}
    for labels, stmts in switch_segments(sws[0]):
        called = set()
        for st in stmts:
            for n in walk(st):
                if n.get("k") == "MCall" and (n.get("obj") or {}).get("k") == "This":
                    called.add(n.get("n"))
        for l in labels:
            can[l] = set().union(*[assigns.get(c, set()) for c in called]) if called else set()
    return enum, can, comp


def variant_contexts(job, enum, can):
    """variant method name -> set of (id, num_workers, strategy value, site name) that can reach it"""
    out = {}
    problems = []
    for s in job.sites:
        nfield = this_field(s.arg.get("num_workers"))
        for (ident, nw) in s.contexts():
            if s.where == "assemble":
                strats = [v for v in enum.values() if nfield in can.get(v, can.get("default", set()))]
            else:
                strats = [v for k, v in enum.items() if k != "automatic"]
            for st in strats:
                tg = job.wm.dispatch(ident, nw, st)
                if len(tg) != 1:
                    problems.append("context (id=%d, num_workers=%d, strategy=%d) from %s dispatches to %s" % (ident, nw, st, s.where, sorted(tg)))
                for t in tg:
                    out.setdefault(t, set()).add((ident, nw, st, s.where))
    return out, problems


# -------------------------------------------------------------------------------------------------
# clause 6: dispatch contexts imply the targets' own assertions; clause 2: combine under the mutex
# -------------------------------------------------------------------------------------------------

def assertions_reached(wm, fn, env):
    """(assertion call, value or None) for the FEAT::assertion calls reachable in fn under env"""
    fx = wm.fx(fn)
    out = []
    seen = set()
    st = [fx.cfg.entry]
    while st:
        b = st.pop()
        if b in seen:
            continue
        seen.add(b)
        blk = fx.cfg.blocks[b]
        for e in blk["el"]:
            n = fn.by_id(e)
            if n is not None and n.get("k") == "Call" and n.get("callee") == "FEAT::assertion" and n.get("a"):
                try:
                    out.append((n, ev(fn, n["a"][0], env)))
                except Unknown:
                    out.append((n, None))
        if blk.get("cond") is not None and len(blk.get("succ", [])) == 2:
            try:
                v = ev(fn, fn.by_id(blk["cond"]), env)
                s = blk["succ"][0 if v else 1]
                if s is not None:
                    st.append(s)
                continue
            except Unknown:
                pass
        st.extend(fx.cfg.succ.get(b, []))
    return out


def rule_dispatch(ck, job, vctx, inv_enum):
    R = "E13.dispatch-asserts"
    wm = job.wm
    for variant, ctxs in sorted(vctx.items()):
        fn = wm.methods[variant]
        res = {}
        for (ident, nw, st, where) in sorted(ctxs):
            for n, v in assertions_reached(wm, fn, wm.env(ident, nw, st)):
                text = render(n["a"][0])
                r = res.setdefault((where, text), {"line": n.get("l"), "bad": [], "n": 0, "undecided": 0})
                if v is None:
                    r["undecided"] += 1
                else:
                    r["n"] += 1
                    if not v:
                        r["bad"].append("Worker(id=%d, num_workers=%d) strategy=%s" % (ident, nw, inv_enum.get(st, st)))
        for (where, text), r in sorted(res.items()):
            if r["n"] == 0:
                ck.note("%s::%s: XASSERT(%s) depends on run-time layer data; not decided" % (job.name, variant, text))
                continue
            ck.ob(R, "%s/%s->%s/XASSERT(%s)" % (job.name, where, variant, text), not r["bad"],
                  "contexts constructed in %s() reach %s whose XASSERT(%s) fails for %s: the assembly aborts" % (where, variant, text, ", ".join(r["bad"][:4])) if r["bad"]
                  else "XASSERT(%s) of %s holds in all %d (id, num_workers, strategy) contexts that %s() can construct (ids/worker counts <= %d)" % (text, variant, r["n"], where, NMAX),
                  fn.file, r["line"])


def rule_combine(ck, job, vctx):
    R = "E14.combine-locked"
    wm = job.wm
    mfield = wm.field_of.get("thread_mutex")
    for variant in sorted(vctx):
        fn = wm.methods[variant]
        fx = wm.fx(fn)
        calls = [n for n in fn.nodes() if task_call(n, "combine")]
        maxn = max(c[1] for c in vctx[variant])
        for k, c in enumerate(calls):
            held = lock_held_at(fx, c, lambda e: this_field(e) == mfield)
            ok = held is not None or maxn <= 1
            key = "%s::%s/combine%s" % (job.name, variant, "" if len(calls) == 1 else "#%d" % k)
            if held is not None:
                d = "task->combine() is called with a live lock on the shared %s" % held
            elif maxn <= 1:
                d = "task->combine() without lock: %s is only reachable with num_workers <= 1 (%d contexts)" % (variant, len(vctx[variant]))
            else:
                d = "task->combine() at line %s is called without a lock on this->%s being held, but %s runs with up to %d concurrent workers: two threads reduce into the job object at the same time" % (c.get("l"), mfield, variant, maxn)
            ck.ob(R, key, ok, d, fn.file, c.get("l"))
    R = "E14.shared-mutex"
    for s in job.sites:
        a = strip(s.arg.get("thread_mutex") or {})
        f = this_field(a)
        ok = f is not None and "std::mutex" in s.fn.ntype(a) and "&" not in s.fn.ntype(a).replace("std::mutex &", "")
        ck.ob(R, "%s/%s/thread_mutex" % (job.name, s.where), ok,
              "Worker is constructed with the assembler's member mutex this->%s (one object shared by all workers)" % f if ok
              else "Worker in %s() receives `%s` as thread_mutex, not a mutex member of the assembler shared by all workers" % (s.where, render(a)),
              s.fn.file, s.node.get("l"))
    fs = {this_field(strip(s.arg.get("thread_mutex") or {})) for s in job.sites}
    if len(fs) > 1:
        ck.ob(R, "%s/one-mutex" % job.name, False, "construction sites pass different mutexes %s" % sorted(map(str, fs)), job.sites[0].fn.file, job.sites[0].node.get("l"))


# -------------------------------------------------------------------------------------------------
# fence event extraction (structured walk) and happens-before matching of the two roles
# -------------------------------------------------------------------------------------------------

class Proto:
    """extracts the ordered fence events of a statement list of one role"""

    def __init__(self, fx, fences_field, sym, own=None, k_sym=None):
        self.fx = fx
        self.fn = fx.fn
        self.ff = fences_field
        self.sym = dict(sym)
        self.own = own
        self.k_sym = k_sym

    def _only_exit(self, st):
        st_ = st
        while st_ is not None and st_.get("k") == "Block" and len(st_.get("s", [])) == 1:
            st_ = st_["s"][0]
        if st_ is not None and st_.get("k") in ("Return", "Break"):
            return st_
        return None

    def expr_events(self, e, out):
        for n in walk(e, prune=lambda x: x.get("k") == "Lambda"):
            if fence_call(n):
                kind = n["callee"].rsplit("::", 1)[-1]
                sym = dict(self.sym)
                if self.k_sym is not None:
                    loops = [lp for lp in self.fx.enclosing_loops(n) if loop_normal(self.fx, lp)]
                    if loops:
                        sym[("l", loop_normal(self.fx, loops[0])[0])] = self.k_sym
                f = fence_of(self.fx, n, self.ff, sym, own=self.own)
                ev_ = {"k": kind, "f": f, "node": n, "l": n.get("l")}
                if kind == "open":
                    ev_["arg"] = strip(n["a"][0]) if n.get("a") else None
                out.append(ev_)
            elif n.get("k") == "MCall" and n.get("callee") == "std::thread::join":
                out.append({"k": "join", "node": n, "l": n.get("l")})
            elif task_call(n):
                out.append({"k": "task", "name": n["n"], "node": n, "l": n.get("l")})

    def stmts(self, sts):
        out = []
        for st in sts:
            out.extend(self.stmt(st))
        return out

    def stmt(self, st):
        if st is None:
            return []
        k = st.get("k")
        if k == "Block":
            return self.stmts(st.get("s", []))
        if k == "Try":
            return self.stmt(st.get("body")) if st.get("body") is not None else self.stmts([c for c in children(st)][:1])
        if k in ("For", "While", "Do", "ForRange"):
            hdr = []
            for key in ("init", "c", "inc", "range"):
                if st.get(key) is not None:
                    self.expr_events(st[key], hdr)
            if any(h["k"] != "task" for h in hdr):
                raise Unknown("fence event in a loop header at line %s" % st.get("l"))
            inner = self.stmt(st.get("body"))
            if any(i["k"] == "task" for i in inner):
                return [{"k": "work", "loop": st, "inner": [i for i in inner if i["k"] != "task"], "tasks": [i for i in inner if i["k"] == "task"], "l": st.get("l")}]
            if inner:
                return [{"k": "loop", "loop": st, "items": inner, "l": st.get("l")}]
            return []
        if k == "If":
            ce = []
            self.expr_events(st["c"], ce)
            ex = self._only_exit(st.get("then"))
            if ex is not None and st.get("else") is None:
                c = strip(st["c"])
                if len(ce) == 1 and ce[0]["k"] == "wait":
                    neg = c.get("k") == "Un" and c["op"] == "!" and strip(c["e"]) is ce[0]["node"]
                    rv = strip(ex.get("e") or {})
                    if neg and ex["k"] == "Return" and rv.get("k") == "Bool" and rv["v"] is False:
                        ce[0]["checked"] = "return-false"
                    else:
                        ce[0]["checked"] = "odd"
                    return ce
                if ce:
                    raise Unknown("fence events in the condition at line %s" % st.get("l"))
                return [{"k": "exit_if", "cond": st["c"], "exit": ex["k"], "l": st.get("l")}]
            th = self.stmt(st.get("then"))
            el = self.stmt(st.get("else"))
            if all(x["k"] == "task" for x in th + el):
                if any(c_["k"] != "task" for c_ in ce):
                    raise Unknown("fence events in the condition at line %s" % st.get("l"))
                return ce + th + el
            return ce + [{"k": "if", "cond": st["c"], "then": th, "else": el, "l": st.get("l")}]
        if k == "Switch":
            inner = []
            self.expr_events(st, inner)
            if inner:
                raise Unknown("fence events inside a nested switch at line %s" % st.get("l"))
            return []
        out = []
        self.expr_events(st, out)
        for e_ in out:
            if e_["k"] == "wait" and "checked" not in e_:
                # result stored or combined into a variable?
                p = self.fx.parent.get(id(e_["node"]))
                while p is not None and p.get("k") in ("Bin", "Cast", "Un"):
                    p = self.fx.parent.get(id(p))
                if p is not None and p.get("k") == "Assign" and strip(p["lhs"]).get("k") == "Ref":
                    e_["checked"] = ("var", strip(p["lhs"])["d"])
                elif p is not None and p.get("k") == "Var":
                    e_["checked"] = ("var", p["d"])
                else:
                    e_["checked"] = None
        return out


def flatten_round(items):
    """linear event list of one round: `loop` items (for-all-workers loops) are inlined with
    forall=True; conditional fence events make the round unanalysable"""
    out = []
    for it in items:
        if it["k"] == "loop":
            for x in it["items"]:
                if x["k"] in ("loop", "if", "work"):
                    raise Unknown("nested control flow around fence events at line %s" % x.get("l"))
                y = dict(x)
                y["forall"] = it["loop"]
                out.append(y)
        elif it["k"] == "if":
            if it["then"] or it["else"]:
                raise Unknown("conditional fence events at line %s" % it.get("l"))
        elif it["k"] == "work":
            out.append({"k": "work", "l": it.get("l"), "inner": it["inner"]})
        else:
            out.append(it)
    return out


def hb_check(master, worker, rounds):
    """master/worker: flat event lists of one round (worker: one generic worker).  Unrolls `rounds`
    rounds, pairs the k-th wait(f) of a role with the k-th open(f) of the other role in the same
    round, builds the happens-before graph (program order + open->wait) and returns a list of
    protocol violations: unmatched wait, wait-for cycle, open erased by a close before the waiter
    passed, stale open of an earlier phase still visible at a wait, colour rounds not separated."""
    G = nx.DiGraph()
    evs = []
    for role, seq in (("master", master), ("worker", worker)):
        prev = None
        for r in range(rounds):
            for k, e in enumerate(seq):
                if e["k"] not in ("wait", "open", "close", "work"):
                    continue
                if e["k"] != "work" and e["f"] == "NEXT":
                    continue
                node = (role, r, k)
                G.add_node(node)
                evs.append((node, e))
                if prev is not None:
                    G.add_edge(prev, node)
                prev = node
    E = dict(evs)
    viol = []

    def of(role, r, kind, f):
        return [nd for nd, e in evs if nd[0] == role and nd[1] == r and e["k"] == kind and e.get("f") == f]
    pairs = []
    for role, other in (("master", "worker"), ("worker", "master")):
        fences = []
        for nd, e in evs:
            if nd[0] == role and e["k"] == "wait" and e["f"] not in fences:
                fences.append(e["f"])
        for f in fences:
            for r in range(rounds):
                ws = of(role, r, "wait", f)
                os_ = of(other, r, "open", f) + ([] if f != "ALL" else [])
                for i, w in enumerate(ws):
                    if i < len(os_):
                        pairs.append((os_[i], w, f))
                        G.add_edge(os_[i], w)
                    elif r == 0:
                        viol.append("the %s's wait() on fence %s (line %s) has no matching open() by the %s in the same round: the %s blocks forever" % (role, f, E[w]["l"], other, role))
    if viol:
        return viol
    if not nx.is_directed_acyclic_graph(G):
        cyc = nx.find_cycle(G)
        return ["wait-for cycle between master and worker: " + " -> ".join("%s:%s(%s)@%s" % (a[0], E[a]["k"], E[a].get("f", ""), E[a]["l"]) for a, b in cyc)]
    TC = nx.transitive_closure_dag(G)
    hb = lambda a, b: TC.has_edge(a, b)
    seen = set()
    for o, w, f in pairs:
        for nd, e in evs:
            if e.get("f") not in (f, "ALL"):
                continue
            if e["k"] == "close" and not hb(nd, o) and not hb(w, nd):
                msg = "close() of fence %s by the %s (line %s) is not ordered after the %s's wait() (line %s) that the open() at line %s releases: the open can be erased before the waiter saw it (deadlock)" % (
                    f, nd[0], e["l"], w[0], E[w]["l"], E[o]["l"])
                if msg not in seen:
                    seen.add(msg)
                    viol.append(msg)
            if e["k"] == "open" and nd != o and nd[0] == o[0] and not hb(w, nd) and e.get("f") == f:
                # an earlier open of the same fence: must be closed again before this wait
                if not hb(nd, o):
                    continue
                # the close must be ordered before the wait independently of the open this wait is
                # meant for (otherwise the waiter can run ahead on the stale open)
                Gp = G.copy()
                Gp.remove_edge(o, w)
                closed = any(e2["k"] == "close" and e2.get("f") in (f, "ALL") and hb(nd, n2) and nx.has_path(Gp, n2, w) for n2, e2 in evs)
                if not closed:
                    msg = "wait() of the %s on fence %s (line %s) can be satisfied by the stale open() at line %s of an earlier phase: no close() of the fence is ordered between them (the waiter runs ahead: race / later deadlock)" % (
                        w[0], f, E[w]["l"], e["l"])
                    if msg not in seen:
                        seen.add(msg)
                        viol.append(msg)
    if rounds > 1:
        H = G.copy()
        wk = [nd for nd, e in evs if nd[0] == "worker"]
        for a, b in list(H.edges()):
            if a[0] == "worker" and b[0] == "worker" and a[1] != b[1]:
                H.remove_edge(a, b)
        w0 = [nd for nd, e in evs if nd[0] == "worker" and nd[1] == 0 and e["k"] == "work"]
        w1 = [nd for nd, e in evs if nd[0] == "worker" and nd[1] == 1 and e["k"] == "work"]
        for a in w0:
            for b in w1:
                if not nx.has_path(H, a, b):
                    viol.append("the scatter loop of colour round r (line %s) is not ordered through the master before the scatter loop of round r+1 of another worker: two colours can be scattered concurrently" % E[a]["l"])
    return viol


def cond_form(fn, c, sym):
    """normal form of a strict loop bound `a < b` / `b > a`: sympy expression b - a"""
    c = strip(c)
    if c.get("k") != "Bin" or c["op"] not in ("<", ">"):
        raise Unknown("loop condition " + render(c))
    a, b = sx(fn, c["lhs"], sym), sx(fn, c["rhs"], sym)
    return sympy.simplify((b - a) if c["op"] == "<" else (a - b))


K = sympy.Symbol("k", integer=True, nonnegative=True)
ID = sympy.Symbol("id", integer=True, nonnegative=True)
NW = sympy.Symbol("n", integer=True, positive=True)


def worker_sym(job, site):
    """sympy naming of the Worker's fields by their meaning at the construction site: id, n, and the
    assembler's vector names for the vectors passed by reference"""
    wm = job.wm
    sym = {("f", wm.field_of.get("id")): ID, ("f", wm.field_of.get("num_workers")): NW}
    for fld, role in wm.role.items():
        a = site.arg.get(role)
        af = this_field(a) if a is not None else None
        if af is not None and "vector" in site.fn.ntype(strip(a)):
            sym[("v", fld)] = af
    return sym


def master_segments(job):
    fxa = job.assemble
    sws = [n for n in fxa.fn.nodes() if n.get("k") == "Switch"]
    if len(sws) != 1:
        raise Unknown("assemble(): expected one switch over the threading strategy, found %d" % len(sws))
    return sws[0], switch_segments(sws[0])


def rule_protocol(ck, job, vctx, enum, can, inv_enum):
    R = "E14.protocol"
    wm = job.wm
    fxa = job.assemble
    site = next((s for s in job.sites if s.where == "assemble"), None)
    if fxa is None or site is None:
        ck.incomplete(R, "%s: assemble() with a Worker construction not found" % job.name)
        return
    ffield = this_field(site.arg.get("thread_fences"))
    nfield = this_field(site.arg.get("num_workers"))
    sfield = this_field(site.arg.get("strategy"))
    try:
        sw, segs = master_segments(job)
    except Unknown as e:
        ck.incomplete(R, "%s: %s" % (job.name, e))
        return
    if sfield is None or not any(this_field(x) == sfield for x in walk(sw["c"])):
        ck.incomplete(R, "%s: assemble() switches on `%s` but hands `%s` to the workers as their strategy" % (job.name, render(sw["c"]), render(site.arg.get("strategy"))))
        return
    # the id argument as a function of the creation loop variable, and the creation loop range
    cl = [lp for lp in fxa.enclosing_loops(site.node) if loop_normal(fxa, lp)]
    if not cl:
        ck.incomplete(R, "%s: Worker construction in assemble() is not inside a counting loop" % job.name)
        return
    cd, cinit, ccond, cstep = loop_normal(fxa, cl[0])
    try:
        id_form = sx(fxa.fn, site.arg["id"], {("l", cd): K})
        create_range = (sx(fxa.fn, cinit, {}), cond_form(fxa.fn, ccond, {("l", cd): K}), cstep)
    except Unknown as e:
        ck.incomplete(R, "%s: creation loop not in normal form (%s)" % (job.name, e))
        return
    thr_vec = None
    for n in walk(cl[0].get("body")):
        if n.get("k") == "MCall" and n.get("n") in ("emplace_back", "push_back") and "std::thread" in fxa.fn.ntype(strip(n.get("obj") or {})):
            thr_vec = this_field(n.get("obj"))
    size_thr = sympy.Symbol("size_%s" % thr_vec, integer=True, nonnegative=True)
    nsym = sympy.Symbol(nfield, integer=True, nonnegative=True)

    def forall_ok(loop):
        ln = loop_normal(fxa, loop)
        if not ln:
            return False
        rng = (sx(fxa.fn, ln[1], {}), cond_form(fxa.fn, ln[2], {("l", ln[0]): K}).subs(size_thr, nsym), ln[3])
        return rng == create_range

    wsym = worker_sym(job, site)
    seg_of = {}
    for labels, stmts in segs:
        for l in labels:
            seg_of[l] = stmts
    strategies = sorted(v for v in enum.values() if nfield in can.get(v, can.get("default", set())))
    for st in strategies:
        sname = inv_enum.get(st, str(st))
        variants = sorted({v for v, cs in vctx.items() for c in cs if c[2] == st and c[3] == "assemble"})
        try:
            env_sw = Env(fields={sfield: st}, consts=wm.consts)
            sel = ev(fxa.fn, sw["c"], env_sw)
        except Unknown as e:
            ck.incomplete(R, "%s: switch condition of assemble() not evaluable for strategy %s (%s)" % (job.name, sname, e))
            continue
        stmts = seg_of.get(sel, seg_of.get("default"))
        for variant in variants:
            key = "strategy=%s/need_scatter=%s/%s" % (sname, wm.flag("need_scatter"), variant)
            loc = (fxa.fn.file, stmts[0].get("l") if stmts else fxa.fn.line)
            try:
                if stmts is None:
                    raise Unknown("no switch group for strategy %s" % sname)
                mp = Proto(fxa, ffield, {}, own=None, k_sym=K)
                mitems = mp.stmts(stmts)
                # master fences indexed like the worker ids are the workers' own fences
                def relabel(items):
                    for it in items:
                        if it["k"] in ("loop",):
                            relabel(it["items"])
                        elif it["k"] in ("wait", "open", "close") and isinstance(it["f"], tuple):
                            lp = [l_ for l_ in fxa.enclosing_loops(it["node"]) if loop_normal(fxa, l_)]
                            if it["f"][1] == str(id_form) and lp and forall_ok(lp[0]):
                                it["f"] = "OWN"
                relabel(mitems)
                wfn = wm.methods[variant]
                wfx = wm.fx(wfn)
                wp = Proto(wfx, wm.field_of.get("thread_fences"), wsym, own=ID)
                witems = wp.stmts(wfn.body.get("s", []))
                is_round = lambda it: it["k"] == "loop" and any(x["k"] == "loop" or x.get("f") in ("START", "END") for x in it["items"])
                mround = [it for it in mitems if is_round(it)]
                wround = [it for it in witems if it["k"] == "loop" and any(x["k"] in ("wait", "open", "close", "work") for x in it["items"])]
                viol = []
                if mround:
                    if len(mround) != 1:
                        raise Unknown("several round loops in the master")
                    m_seq = flatten_round(mround[0]["items"])
                    if len(wround) == 1:
                        w_seq = flatten_round(wround[0]["items"])
                        # same number of rounds on both sides
                        lm, lw = loop_normal(fxa, mround[0]["loop"]), loop_normal(wfx, wround[0]["loop"])
                        if not lm or not lw:
                            raise Unknown("round loops are not counting loops")
                        fm = (sx(fxa.fn, lm[1], {}), cond_form(fxa.fn, lm[2], {("l", lm[0]): K}), lm[3])
                        fw = (sx(wfn, lw[1], wsym), cond_form(wfn, lw[2], {**wsym, ("l", lw[0]): K}), lw[3])
                        if fm != fw:
                            viol.append("master runs rounds %s but the worker runs rounds %s: after the shorter loop ends the other side waits forever" % (fm, fw))
                    elif not wround:
                        w_seq = flatten_round(witems)
                    else:
                        raise Unknown("several round loops in %s" % variant)
                    rounds = 2
                else:
                    m_seq = flatten_round(mitems)
                    if wround:
                        viol.append("%s synchronises in rounds but the master's branch for strategy %s has no round loop" % (variant, sname))
                        w_seq = flatten_round(wround[0]["items"])
                    else:
                        w_seq = flatten_round(witems)
                    rounds = 1
                for e_ in m_seq + w_seq:
                    if e_["k"] in ("wait", "open", "close") and isinstance(e_["f"], tuple):
                        viol.append("%s() on fence index %s (line %s) addresses neither the start/end fence nor a worker's own fence (worker ids are %s for k in the creation loop)" % (e_["k"], e_["f"][1], e_["l"], id_form))
                if not viol:
                    viol = hb_check(m_seq, w_seq, rounds)
                # the master must join after its protocol part
                ck.ob(R, key, not viol,
                      ("job %s: " % job.job) + ("; ".join(viol) if viol else "master branch (%d events/round) and %s (%d events/round) match: every wait has an open in the other role, the happens-before graph of %d round(s) is acyclic, no open is erased or stale, rounds are separated through the master" % (
                          len([e_ for e_ in m_seq if e_["k"] in ("wait", "open", "close")]), variant, len([e_ for e_ in w_seq if e_["k"] in ("wait", "open", "close")]), rounds)),
                      loc[0], loc[1], sample={"master": ["%s(%s)" % (e_["k"], e_.get("f", "")) for e_ in m_seq], "worker": ["%s(%s)" % (e_["k"], e_.get("f", "")) for e_ in w_seq]})
            except Unknown as e:
                ck.incomplete(R, "%s %s: %s" % (job.name, key, e))


# -------------------------------------------------------------------------------------------------
# clause 3: layered neighbour handshake (CFG path rules), wait results, failure notification
# -------------------------------------------------------------------------------------------------

def all_events(items):
    for it in items:
        yield it
        for key in ("items", "inner", "then", "else"):
            if it.get(key):
                yield from all_events(it[key])


def work_loop(fx):
    loops = [n for n in fx.fn.nodes() if n.get("k") == "For" and any(task_call(x, "prepare") for x in walk(n.get("body")))]
    inner = [l for l in loops if not any(l2 is not l and any(x is l2 for x in walk(l.get("body"))) for l2 in loops)]
    return inner[0] if len(inner) == 1 else None


def eq_tests(fx, loop_var):
    """[(block, other local decl id, true succ, false succ)] for branch conditions `elem == X`"""
    out = []
    for b in fx.cfg.blocks.values():
        if b.get("cond") is None or len(b.get("succ", [])) != 2:
            continue
        c = strip(fx.fn.by_id(b["cond"]) or {})
        if c.get("k") == "Bin" and c.get("op") == "==":
            l, r = strip(c["lhs"]), strip(c["rhs"])
            for a, o in ((l, r), (r, l)):
                if a.get("k") == "Ref" and a.get("d") == loop_var and o.get("k") == "Ref" and o.get("dk") == "local":
                    out.append((b["id"], o["d"], b["succ"][0], b["succ"][1]))
    return out


def controlling_test(fx, tests, node, header):
    """the `elem == X` test whose true edge is the only way to reach node within one iteration"""
    pos = fx.pos(node)
    tgt = [node["i"]]
    for (tb, d, ts, fs) in tests:
        if tb not in fx.cfg.dom.get(pos[0], ()):
            continue
        via_t = ts is not None and fx.reach((ts, 0), target_stmts=tgt, avoid_blocks=[tb, header]) is not None
        via_f = fs is not None and fx.reach((fs, 0), target_stmts=tgt, avoid_blocks=[tb, header]) is not None
        if via_t and not via_f:
            return (tb, d, ts, fs)
    return None


def local_defs(fx, d, before=None):
    """definitions of local d in source order: [(rhs node, guards, node)]"""
    out = []
    for n in fx.fn.nodes():
        if n.get("k") == "Var" and n.get("d") == d:
            out.append((n.get("init"), fx.guards(n), n))
        elif n.get("k") == "Assign" and strip(n["lhs"]).get("k") == "Ref" and strip(n["lhs"]).get("d") == d:
            if n.get("op") != "=":
                raise Unknown("compound assignment to a range variable at line %s" % n.get("l"))
            out.append((n["rhs"], fx.guards(n), n))
        elif n.get("k") == "Un" and n.get("op") in ("++", "--") and strip(n["e"]).get("d") == d:
            raise Unknown("increment of a range variable at line %s" % n.get("l"))
    return out


def form_in_context(wm, fx, d, ctx, sym, scope_loop):
    """symbolic value of local d at the work loop for the worker context ctx=(id, n, strategy)"""
    env = wm.env(ctx[0], ctx[1], ctx[2])
    val = None
    for rhs, guards, node in local_defs(fx, d):
        lps = fx.enclosing_loops(node)
        if (lps[0] if lps else None) is not scope_loop:
            raise Unknown("definition of a range variable at line %s is not at the nesting level of the element loop" % node.get("l"))
        if all(bool(ev(fx.fn, c, env)) == pol for c, pol in guards):
            val = rhs
    if val is None:
        raise Unknown("no reaching definition")
    return sx(fx.fn, val, sym)


def rule_layered(ck, job, vctx, enum, inv_enum):
    wm = job.wm
    site = next((s for s in job.sites if s.where == "assemble"), None)
    wsym = worker_sym(job, site)
    colored = enum.get("colored")
    lay_variants = sorted({v for v, cs in vctx.items() for c in cs if c[3] == "assemble" and c[2] != colored and c[1] > 1})
    if not wm.flag("need_scatter"):
        return
    for variant in lay_variants:
        fn = wm.methods[variant]
        fx = wm.fx(fn)
        name = "%s::%s" % (job.name, variant)
        try:
            P = Proto(fx, wm.field_of.get("thread_fences"), wsym, own=ID)
            items = P.stmts(fn.body.get("s", []))
            works = [i for i in items if i["k"] == "work"]
            loop = work_loop(fx)
            if loop is None or len(works) != 1:
                raise Unknown("element loop not identified")
            ln = loop_normal(fx, loop)
            if ln is None:
                raise Unknown("element loop is not a counting loop")
            H = fx.header_block(loop)
            body_entry = fx.cfg.blocks[H]["succ"][0]
            inner = list(all_events(works[0]["inner"]))
            waits = [e for e in inner if e["k"] == "wait" and e["f"] == "NEXT"]
            opens = [e for e in inner if e["k"] == "open" and e["f"] == "OWN"]
            scat = [n for n in walk(loop.get("body")) if task_call(n, "scatter")]
            other = [e for e in inner if e["k"] in ("wait", "open", "close") and e not in waits and e not in opens]
            R = "E7.layered-wait-before-scatter"
            if not waits or not opens or not scat:
                ck.ob(R, name + "/handshake", False,
                      "the worker variant used for the layered strategies with a scattering task has %d wait(next fence), %d open(own fence), %d scatter() in its element loop: adjacent layers of neighbouring threads are not serialised" % (len(waits), len(opens), len(scat)),
                      fn.file, loop.get("l"))
                continue
            if other:
                raise Unknown("unexpected fence events in the element loop: %s" % [(e["k"], e["f"], e["l"]) for e in other])
            tests = eq_tests(fx, ln[0])
            S = [n["i"] for n in scat]
            W = [e["node"]["i"] for e in waits]
            O = [e["node"]["i"] for e in opens]
            tw = [controlling_test(fx, tests, e["node"], H) for e in waits]
            to = [controlling_test(fx, tests, e["node"], H) for e in opens]
            if any(t is None for t in tw + to):
                raise Unknown("a fence event of the element loop is not controlled by a single `element == position` test")
            dw = {t[1] for t in tw}
            do = {t[1] for t in to}
            if len(dw) != 1 or len(do) != 1:
                raise Unknown("several position variables")
            dw, do = dw.pop(), do.pop()
            # 3a: in the iteration of the wait position, the wait precedes scatter
            cut = [(t[0], t[3]) for t in tests if t[1] == dw]
            esc = fx.reach((body_entry, 0), target_stmts=S, avoid_stmts=W, avoid_blocks=[H], cut_edges=cut)
            ck.ob(R, name + "/wait(next)->scatter", esc is None,
                  "every path of one loop iteration to task->scatter() either took the false edge of `element == wait position` or passed wait() on fence id+1" if esc is None
                  else "task->scatter() (line %s) is reachable in the iteration `element == wait position` without first passing the wait on the next thread's fence: the thread scatters into its last layer while thread id+1 may still scatter into the adjacent first layer" % fn.by_id(esc[1]).get("l"),
                  fn.file, waits[0]["l"])
            # 3b: own fence opened only after scatter of the open position, and always
            R = "E7.layered-open-after-scatter"
            e1 = fx.reach((body_entry, 0), target_stmts=O, avoid_stmts=S, avoid_blocks=[H])
            cut_t = [(t[0], t[2]) for t in tests if t[1] == do]
            e2 = fx.reach((body_entry, 0), target_stmts=O, avoid_blocks=[H], cut_edges=cut_t)
            fails = [n["i"] for n in fn.nodes() if n.get("k") == "Return" and strip(n.get("e") or {}).get("k") == "Bool" and strip(n["e"])["v"] is False]
            e3 = None
            for t in tests:
                if t[1] == do and t[2] is not None:
                    e3 = e3 or fx.reach((t[2], 0), target_blocks=[H, fx.cfg.exit], avoid_stmts=O + fails, avoid_blocks=fx.cfg.noreturn_blocks())
            arg_true = all(strip(e["arg"] or {}).get("k") == "Bool" and strip(e["arg"])["v"] is True for e in opens)
            ok = e1 is None and e2 is None and e3 is None and arg_true
            why = []
            if e1 is not None:
                why.append("open() of the own fence (line %s) is reachable in an iteration before task->scatter(): the previous thread enters its last layer while this thread still scatters into the adjacent first layer" % opens[0]["l"])
            if e2 is not None:
                why.append("open() of the own fence is reachable without `element == open position` being true: the fence opens before the first layer is finished")
            if e3 is not None:
                why.append("in the iteration `element == open position` a path continues without opening the own fence: thread id-1 waits forever")
            if not arg_true:
                why.append("the own fence is opened with a non-true status on the success path: thread id-1 gives up")
            ck.ob(R, name + "/scatter->open(own)", ok,
                  "; ".join(why) if why else "open(true) of fence id is only reachable after scatter() in the iteration `element == open position`, and on every continuing path of that iteration",
                  fn.file, opens[0]["l"])
            # positions and range as normal forms
            R = "E5.layered-positions"
            c = strip(ln[2])
            if c.get("k") != "Bin" or c["op"] != "<" or strip(c["lhs"]).get("d") != ln[0] or strip(c["rhs"]).get("k") != "Ref" or ln[3] != 1:
                raise Unknown("element loop bound is not `element < end`")
            d_end = strip(c["rhs"])["d"]
            ini = strip(ln[1])
            if ini.get("k") != "Ref":
                raise Unknown("element loop does not start at a range variable")
            d_beg = ini["d"]
            scope = (fx.enclosing_loops(loop) or [None])[0]
            Fn_ = this_field(site.arg.get("layer_elements"))
            Gn_ = this_field(site.arg.get("thread_layers"))
            En_ = this_field(site.arg.get("element_indices"))
            if None in (Fn_, Gn_, En_):
                raise Unknown("layer/thread-layer vectors are not passed as assembler members")
            F, G = VF(Fn_), VF(Gn_)
            ctxs = sorted({(c_[0], c_[1], c_[2]) for c_ in vctx[variant] if c_[3] == "assemble" and c_[2] != colored})
            res = {"range-begin": [], "range-end": [], "wait-position": [], "open-position": []}
            for ctx in ctxs:
                ident, nw = ctx[0], ctx[1]
                exp = {"range-begin": [F(G(ID - 1))], "range-end": [F(G(ID))],
                       "wait-position": [F(G(ID) - 1)] if ident < nw else [SENTINEL],
                       "open-position": [F(G(ID - 1) + 1) - 1] if ident >= 2 else [SENTINEL, F(G(ID - 1) + 1) - 1]}
                for what, d in (("range-begin", d_beg), ("range-end", d_end), ("wait-position", dw), ("open-position", do)):
                    got = form_in_context(wm, fx, d, ctx, wsym, scope)
                    if not any(sympy.simplify(got - e_) == 0 for e_ in exp[what]):
                        res[what].append("id=%d of %d workers: %s, expected %s" % (ident, nw, got, exp[what][0]))
            doc = {"range-begin": "first element = first element of the thread's first layer", "range-end": "end = first element of the next thread's first layer (consecutive thread_layers entries: the ranges of threads id and id+1 abut)",
                   "wait-position": "threads id < n wait at the first element of their last layer, thread n never waits (fence n+1 is never opened in layered mode)",
                   "open-position": "threads id >= 2 open at the last element of their first layer"}
            for what in res:
                ck.ob(R, name + "/" + what, not res[what],
                      ("; ".join(res[what][:3])) if res[what] else "%s in all %d contexts (%s with F=%s, G=%s)" % (doc[what], len(ctxs), {"range-begin": "F(G(id-1))", "range-end": "F(G(id))", "wait-position": "F(G(id)-1)", "open-position": "F(G(id-1)+1)-1"}[what], Fn_, Gn_),
                      fn.file, loop.get("l"))
            # element handed to prepare()
            prep = [n for n in walk(loop.get("body")) if task_call(n, "prepare")]
            got = [sx(fn, p["a"][0], {**wsym, ("l", ln[0]): K}) for p in prep]
            okp = all(sympy.simplify(g - VF(En_)(K)) == 0 for g in got)
            ck.ob(R, name + "/prepared-element", okp, "prepare() receives %s for loop position k" % (got,), fn.file, prep[0].get("l"))
        except Unknown as e:
            ck.incomplete("E7.layered-wait-before-scatter", "%s: %s" % (name, e))


def rule_wait_results(ck, job, vctx):
    R = "E14.wait-result-checked"
    wm = job.wm
    site = next((s for s in job.sites if s.where == "assemble"), None)
    wsym = worker_sym(job, site)
    for variant in sorted(vctx):
        fn = wm.methods[variant]
        fx = wm.fx(fn)
        try:
            items = Proto(fx, wm.field_of.get("thread_fences"), wsym, own=ID).stmts(fn.body.get("s", []))
        except Unknown as e:
            ck.incomplete(R, "%s::%s: %s" % (job.name, variant, e))
            continue
        cnt = {}
        for e in all_events(items):
            if e["k"] != "wait":
                continue
            f = e["f"] if isinstance(e["f"], str) else e["f"][1]
            cnt[f] = cnt.get(f, 0) + 1
            ok = e.get("checked") == "return-false"
            ck.ob(R, "%s::%s/wait(%s)#%d" % (job.name, variant, f, cnt[f]), ok,
                  "a false result (failed neighbour/master) leads to `return false`" if ok
                  else "the result of wait() on fence %s at line %s is not tested with an immediate `return false`: after a failure elsewhere this thread carries on (scatters next to a thread that gave up / never terminates the round protocol)" % (f, e["l"]),
                  fn.file, e["l"])


def rule_failure_open(ck, job):
    R = "E14.failure-opens-fence"
    wm = job.wm
    fn = wm.call_op
    fx = wm.fx(fn)
    site = next((s for s in job.sites if s.where == "assemble"), None)
    wsym = worker_sym(job, site)
    key = "%s::operator()/not-okay->open(own,false)" % job.name
    try:
        items = Proto(fx, wm.field_of.get("thread_fences"), wsym, own=ID).stmts(fn.body.get("s", []))
        opens = [e for e in all_events(items) if e["k"] == "open" and e["f"] == "OWN"]
        disp = [n for n in fn.nodes() if n.get("k") == "MCall" and (n.get("obj") or {}).get("k") == "This" and n.get("n") in wm.methods and n.get("n") != "operator()"]
        flag = set()
        for d in disp:
            p = fx.parent.get(id(d))
            if p is not None and p.get("k") == "Assign" and strip(p["lhs"]).get("k") == "Ref":
                flag.add(strip(p["lhs"])["d"])
            else:
                flag.add(None)
        if len(flag) != 1 or None in flag:
            ck.ob(R, key, False, "the results of the work functions are not all stored in one status variable", fn.file, fn.line)
            return
        fd = flag.pop()
        var = next(n for n in fn.nodes() if n.get("k") == "Var" and n.get("d") == fd)
        init_false = strip(var.get("init") or {}).get("k") == "Bool" and strip(var["init"])["v"] is False
        sets_true = [n for n in fn.nodes() if n.get("k") == "Assign" and strip(n["lhs"]).get("d") == fd and strip(n["rhs"]).get("k") == "Bool" and strip(n["rhs"])["v"] is True]
        # false edges of `!status` tests are the only way around the open
        cut = []
        for b in fx.cfg.blocks.values():
            if b.get("cond") is None or len(b.get("succ", [])) != 2:
                continue
            c = strip(fn.by_id(b["cond"]) or {})
            if c.get("k") == "Un" and c["op"] == "!" and strip(c["e"]).get("d") == fd:
                cut.append((b["id"], b["succ"][1]))
            elif c.get("k") == "Ref" and c.get("d") == fd:
                cut.append((b["id"], b["succ"][0]))
        O = [e["node"]["i"] for e in opens]
        starts = [fx.cfg.entry] + [b["id"] for b in fx.cfg.blocks.values() if b.get("term") == "CXXTryStmt"]
        esc = None
        for s_ in starts:
            esc = esc or fx.reach((s_, 0), target_blocks=[fx.cfg.exit], avoid_stmts=O, cut_edges=cut)
        arg_false = bool(opens) and all(strip(e["arg"] or {}).get("k") == "Bool" and strip(e["arg"])["v"] is False for e in opens)
        ok = init_false and not sets_true and esc is None and arg_false and bool(cut)
        ck.ob(R, key, ok,
              "status starts false, is only set from the work functions' results, and every path to the end of operator() with a false status opens the worker's own fence with `false` (the waiting neighbour/master is released and learns of the failure)" if ok
              else "a worker whose work function failed (false wait result or exception) can finish without opening its own fence with status false (init_false=%s, set true=%d, path around open=%s, open(false)=%s): the thread/master waiting on that fence blocks forever" % (init_false, len(sets_true), esc is not None, arg_false),
              fn.file, opens[0]["l"] if opens else fn.line)
    except (Unknown, StopIteration) as e:
        ck.incomplete(R, "%s: %s" % (key, e))


# -------------------------------------------------------------------------------------------------
# clause 5: every selected cell exactly once (range partition)
# -------------------------------------------------------------------------------------------------

def rule_partition(ck, job, vctx, enum):
    R = "E5.range-partition"
    wm = job.wm
    site = next((s for s in job.sites if s.where == "assemble"), None)
    wsym = worker_sym(job, site)
    En_ = this_field(site.arg.get("element_indices"))
    Cn_ = this_field(site.arg.get("color_elements"))
    for variant in sorted(vctx):
        fn = wm.methods[variant]
        fx = wm.fx(fn)
        name = "%s::%s" % (job.name, variant)
        try:
            items = Proto(fx, wm.field_of.get("thread_fences"), wsym, own=ID).stmts(fn.body.get("s", []))
            colored = enum.get("colored")
            is_layered = wm.flag("need_scatter") and any(c_[3] == "assemble" and c_[2] != colored and c_[1] > 1 for c_ in vctx[variant])
            if is_layered or any(e["k"] == "wait" and e["f"] == "NEXT" for e in all_events(items)):
                continue        # layered: E7.layered-* / E5.layered-positions
            loop = work_loop(fx)
            ln = loop_normal(fx, loop) if loop is not None else None
            if ln is None or ln[3] != 1:
                raise Unknown("element loop is not an ascending counting loop")
            c = strip(ln[2])
            if c.get("k") != "Bin" or c["op"] != "<" or strip(c["lhs"]).get("d") != ln[0]:
                raise Unknown("element loop bound is not `element < end`")
            scope = (fx.enclosing_loops(loop) or [None])[0]
            sym = dict(wsym)
            RC = sympy.Symbol("c", integer=True, nonnegative=True)
            round_ok = True
            if scope is not None:
                rl = loop_normal(fx, scope)
                if rl is None:
                    raise Unknown("round loop is not a counting loop")
                sym[("l", rl[0])] = RC
                sizeC = sympy.Symbol("size_%s" % Cn_, integer=True, nonnegative=True)
                round_ok = (sx(fn, rl[1], sym) == 0 and rl[3] == 1 and sympy.simplify(cond_form(fn, rl[2], sym) - (sizeC - 1 - RC)) == 0)

            def form(node, ctx):
                node = strip(node)
                if node.get("k") == "Ref" and node.get("dk") == "local":
                    # locals defined once at the loop level (offsets/sizes) are expanded recursively
                    return form_local(node["d"], ctx)
                return sx(fn, node, symx(ctx))

            def symx(ctx):
                s2 = dict(sym)
                for n_ in fn.nodes():
                    if n_.get("k") == "Var" and n_.get("d") is not None and ("l", n_["d"]) not in s2 and n_.get("d") != ln[0]:
                        pass
                return s2

            cache = {}

            def form_local(d, ctx):
                if (d, ctx) in cache:
                    return cache[(d, ctx)]
                env = wm.env(ctx[0], ctx[1], ctx[2])
                val = None
                for rhs, guards, node in local_defs(fx, d):
                    lps = fx.enclosing_loops(node)
                    if (lps[0] if lps else None) is not scope:
                        raise Unknown("definition of a range variable at line %s is not at the nesting level of the element loop" % node.get("l"))
                    if all(bool(ev(fn, c_, env)) == pol for c_, pol in guards):
                        val = rhs
                if val is None:
                    raise Unknown("no reaching definition")
                s2 = dict(sym)
                for x in walk(val):
                    if x.get("k") == "Ref" and x.get("dk") == "local" and ("l", x["d"]) not in s2:
                        s2[("l", x["d"])] = form_local(x["d"], ctx)
                r = sx(fn, val, s2)
                cache[(d, ctx)] = r
                return r

            ctxs = sorted({(c_[0], c_[1], c_[2]) for c_ in vctx[variant]})
            prep = [n for n in walk(loop.get("body")) if task_call(n, "prepare")]
            if len(prep) != 1:
                raise Unknown("%d prepare() calls in the element loop" % len(prep))
            bad = []
            forms = set()
            by_n = {}
            for ctx in ctxs:
                beg, end = form(ln[1], ctx), form(c["rhs"], ctx)
                s2 = dict(sym)
                s2[("l", ln[0])] = K
                for x in walk(prep[0]["a"][0]):
                    if x.get("k") == "Ref" and x.get("dk") == "local" and ("l", x["d"]) not in s2:
                        s2[("l", x["d"])] = form_local(x["d"], ctx)
                pidx = sx(fn, prep[0]["a"][0], s2)
                E = VF(En_)
                if not (pidx.func == E and len(pidx.args) == 1):
                    raise Unknown("prepare() argument %s is not an entry of the element index vector" % pidx)
                base = sympy.simplify(pidx.args[0] - K)
                if base.has(K):
                    raise Unknown("prepare() index %s is not `offset + loop position`" % pidx.args[0])
                forms.add((beg, end, base))
                sub = {ID: ctx[0], NW: ctx[1]} if ctx[1] > 0 else {ID: ctx[0]}
                by_n.setdefault((ctx[1], ctx[2]), {})[ctx[0]] = (sympy.simplify(beg.subs(sub)), sympy.simplify(end.subs(sub)), base)
            if scope is None:
                lo, hi = sympy.Integer(0), sympy.Symbol("size_%s" % En_, integer=True, nonnegative=True)
            else:
                C = VF(Cn_)
                lo, hi = C(RC), C(RC + 1)
            for (nw, st), per in sorted(by_n.items()):
                ids = sorted(per)
                first, last = per[ids[0]], per[ids[-1]]
                if sympy.simplify(first[2] + first[0] - lo) != 0:
                    bad.append("n=%d: first worker starts at %s, not at %s" % (nw, first[2] + first[0], lo))
                if sympy.simplify(last[2] + last[1] - hi) != 0:
                    bad.append("n=%d: last worker (id=%d) ends at %s, not at %s: %s" % (nw, ids[-1], sympy.simplify(last[2] + last[1]), hi, "cells are skipped" if True else ""))
                for a, b in zip(ids, ids[1:]):
                    if b != a + 1 or sympy.simplify(per[a][1] - per[b][0]) != 0:
                        bad.append("n=%d: range of worker %d ends at %s but worker %d starts at %s" % (nw, a, per[a][1], b, per[b][0]))
                if nw >= 1 and ids != list(range(1, nw + 1)):
                    bad.append("n=%d: worker ids %s" % (nw, ids))
            symbolic = ""
            if len(forms) == 1 and len({c_[1] for c_ in ctxs if c_[1] >= 2}) >= 2:
                beg, end, base = next(iter(forms))
                ok_s = (sympy.simplify(end.subs(ID, ID - 1) - beg) == 0 and sympy.simplify(base + beg.subs(ID, 1) - lo) == 0 and sympy.simplify(base + end.subs(ID, NW) - hi) == 0)
                symbolic = "; symbolically end(id-1) == beg(id), beg(1) == %s, end(n) == %s: %s" % (lo, hi, ok_s)
                if not ok_s:
                    bad.append("symbolic partition identities fail for beg=%s end=%s" % (beg, end))
            if not round_ok:
                bad.append("the round loop does not run over all colour intervals c = 0 .. size-2")
            ck.ob(R, name, not bad,
                  "; ".join(bad[:4]) if bad else "the element ranges [beg(id), end(id)) of the workers partition [%s, %s) for every worker count in the %d contexts%s" % (lo, hi, len(ctxs), symbolic),
                  fn.file, loop.get("l"), sample={"forms": [str(f_) for f_ in forms]})
        except Unknown as e:
            ck.incomplete(R, "%s: %s" % (name, e))


def rule_thread_layer_ends(ck, facts):
    R = "E5.thread-layers-ends"
    fns = [f for f in facts.functions if f.name == "_build_thread_layers"]
    if not fns:
        ck.incomplete(R, "_build_thread_layers not found")
        return
    fn = fns[0]
    fx = FX(fn)
    texts = {}
    for n in fn.nodes():
        if n.get("k") == "Call" and n.get("callee") == "FEAT::assertion" and n.get("a"):
            c = strip(n["a"][0])
            if c.get("k") == "Bin" and c["op"] == "==":
                try:
                    texts[str(sx(fn, c["lhs"], {}))] = (c["rhs"], n)
                except Unknown:
                    pass
    tl = None
    for k_ in texts:
        m = re.match(r"^(\w+)\(0\)$", k_)
        if m:
            tl = m.group(1)
    ok = False
    detail = "no XASSERT on the first/last thread-layer entry found"
    if tl is not None:
        front = texts.get("%s(0)" % tl)
        back = texts.get("%s(size_%s - 1)" % (tl, tl))
        f_ok = front is not None and strip(front[0]).get("k") in ("Int", "Cast") and ev(fn, front[0], Env()) == 0
        b_ok = False
        if back is not None:
            # last entry == number of layers == size(layer offsets) - 1
            r = strip(back[0])
            try:
                s2 = {}
                if r.get("k") == "Ref" and r.get("dk") == "local":
                    defs = local_defs(fx, r["d"])
                    if len(defs) == 1:
                        s2[("l", r["d"])] = sx(fn, defs[0][0], {})
                v = sx(fn, r, s2)
                b_ok = bool(re.match(r"^size_\w+ - 1$", str(v)))
            except Unknown:
                b_ok = False
        ok = f_ok and b_ok
        detail = "_build_thread_layers asserts %s.front() == 0 (%s) and %s.back() == number of layers (%s): the layered element ranges start at the first and end at the last layer" % (tl, f_ok, tl, b_ok)
    ck.ob(R, "_build_thread_layers/front-back", ok, detail, fn.file, fn.line)


# -------------------------------------------------------------------------------------------------
# clause 7: join / clear on every exit, fences closed before the threads start
# -------------------------------------------------------------------------------------------------

def all_loop_over(fx, loop, vec_field, alt_bound_field=None):
    """loop visits every entry of this->vec_field: range-for over it, or k = 0; k < size (or the
    given count field); ++k.  Returns the element-access test function or None"""
    fn = fx.fn
    if loop.get("k") == "ForRange" and this_field(loop.get("range")) == vec_field:
        d = (loop.get("var") or {}).get("d")
        return lambda o: strip(o).get("k") == "Ref" and strip(o).get("d") == d
    ln = loop_normal(fx, loop)
    if ln is None or ln[3] != 1:
        return None
    try:
        if sx(fn, ln[1], {}) != 0:
            return None
        cf = cond_form(fn, ln[2], {("l", ln[0]): K})
    except Unknown:
        return None
    bounds = [sympy.Symbol("size_%s" % vec_field, integer=True, nonnegative=True) - K]
    if alt_bound_field:
        bounds.append(sympy.Symbol(alt_bound_field, integer=True, nonnegative=True) - K)
    if not any(sympy.simplify(cf - b) == 0 for b in bounds):
        return None

    def acc(o):
        o = strip(o)
        try:
            return sx(fn, o, {("l", ln[0]): K}) == VF(vec_field)(K)
        except Unknown:
            return False
    return acc


def rule_join(ck, job):
    fxa = job.assemble
    fn = fxa.fn
    site = next((s for s in job.sites if s.where == "assemble"), None)
    nfield = this_field(site.arg.get("num_workers"))
    ffield = this_field(site.arg.get("thread_fences"))
    name = "%s/assemble" % job.name
    creates = [n for n in fn.nodes() if n.get("k") == "MCall" and n.get("n") in ("emplace_back", "push_back") and "std::thread" in fn.ntype(strip(n.get("obj") or {}))
               and this_field(n.get("obj"))]
    R = "E7.join-all-exits"
    if len(creates) != 1:
        ck.incomplete(R, "%s: expected one statement appending a std::thread to a member vector, found %d" % (name, len(creates)))
        return
    cr = creates[0]
    tvec = this_field(cr.get("obj"))
    cpos = fxa.pos(cr)
    join_hdr, close_hdr = [], []
    for lp in fn.nodes():
        if lp.get("k") not in ("For", "ForRange"):
            continue
        body_calls = [n for n in walk(lp.get("body")) if n.get("k") == "MCall"]
        js = [n for n in body_calls if n.get("callee") == "std::thread::join"]
        if js:
            acc = all_loop_over(fxa, lp, tvec, nfield)
            if acc is not None and all(acc(j.get("obj")) for j in js) and not fxa.guards(js[0], stop=lp):
                join_hdr.append(fxa.header_block(lp))
        cs = [n for n in body_calls if n.get("callee") == "FEAT::ThreadFence::close"]
        if cs:
            acc = all_loop_over(fxa, lp, ffield)
            if acc is not None and all(acc(resolve_alias(fxa, c_.get("obj"))) for c_ in cs) and not fxa.guards(cs[0], stop=lp):
                close_hdr.append(fxa.header_block(lp))
    join_hdr = [h for h in join_hdr if h is not None]
    close_hdr = [h for h in close_hdr if h is not None]
    nr = fxa.cfg.noreturn_blocks()
    esc = fxa.reach((cpos[0], cpos[1] + 1), target_blocks=[fxa.cfg.exit], avoid_blocks=set(join_hdr) | nr)
    clears = [n for n in fn.nodes() if n.get("k") == "MCall" and n.get("n") == "clear" and this_field(n.get("obj")) == tvec]
    esc2 = fxa.reach((cpos[0], cpos[1] + 1), target_blocks=[fxa.cfg.exit], avoid_stmts=[c_["i"] for c_ in clears], avoid_blocks=nr)
    esc3 = fxa.reach((cpos[0], cpos[1] + 1), target_stmts=[c_["i"] for c_ in clears], avoid_blocks=set(join_hdr) | nr) if clears else None
    why = []
    if esc is not None:
        why.append("a path from the creation of the worker threads to the return of assemble() passes no loop that joins every entry of %s (unjoined threads keep scattering into containers the caller already uses; the next job aborts on `already executing a job`)" % tvec)
    if esc2 is not None:
        why.append("a normal exit is reached without %s.clear(): the next assemble() call aborts with `already executing a job`" % tvec)
    if esc3 is not None:
        why.append("%s.clear() is reachable before the threads are joined (std::terminate on destruction of a joinable thread)" % tvec)
    ck.ob(R, name, not why, "; ".join(why) if why else "every path from thread creation to a normal return joins all entries of %s (%d join-all loops) and then clears the vector" % (tvec, len(join_hdr)), fn.file, cr.get("l"))
    R = "E7.fences-closed-before-start"
    ok = any(h in fxa.cfg.dom.get(cpos[0], ()) for h in close_hdr)
    ck.ob(R, name, ok,
          "a loop closing every fence of %s dominates the creation of the worker threads (fences left open by the previous job cannot release a worker early)" % ffield if ok
          else "no loop closing all fences of %s dominates the creation of the worker threads: the second job on this assembler finds the start/neighbour fences of the first job still open, so waits pass immediately and adjacent layers/colours are scattered concurrently" % ffield,
          fn.file, cr.get("l"))


# -------------------------------------------------------------------------------------------------
# worker count: unsigned wrap in the work-distribution builders (tiny meshes: zero workers)
# -------------------------------------------------------------------------------------------------

def rule_count_wrap(ck, facts, nfield):
    R = "E13.worker-count-wrap"
    cls_fns = [f for f in facts.functions if "::Worker<" not in f.cls and re.search(r"DomainAssembler<", f.cls) and f.cfg is not None]
    for fn in cls_fns:
        asg = [n for n in fn.nodes() if n.get("k") == "Assign" and n.get("op") == "=" and this_field(n["lhs"]) == nfield and strip(n["rhs"]).get("k") != "Int"]
        if not asg:
            continue
        fx = FX(fn)
        for lp in fn.nodes():
            ln = loop_normal(fx, lp) if lp.get("k") == "For" else None
            if ln is None or ln[1] is None:
                continue
            if not any(this_field(x) == nfield and x.get("k") == "Member" for x in walk(ln[1])):
                continue
            if not any(x.get("k") == "Bin" and x["op"] == "-" and is_unsigned(fn.ntype(x)) for x in walk(ln[1])):
                continue
            ipos = fx.pos(lp["init"]["vars"][0])
            conds = path_conditions(fx, ipos[0]) if ipos else []
            doms = [a for a in asg if fx.dominates(fx.pos(a), ipos)]
            free_f, free_s = set(), set()
            for e in [ln[1]] + [c for c, _ in conds] + [a["rhs"] for a in doms]:
                for x in walk(e):
                    if x.get("k") == "Member" and this_field(x) and "vector" not in fn.ntype(x) and is_unsigned(fn.ntype(x)):
                        free_f.add(this_field(x))
                    if x.get("k") == "MCall" and x.get("n") == "size" and this_field(x.get("obj")):
                        free_s.add(this_field(x.get("obj")))
            if doms:
                free_f.discard(nfield)
            free_f, free_s = sorted(free_f), sorted(free_s)
            bad = []
            total = 0
            for vals in itertools.product(range(NMAX + 2), repeat=len(free_f) + len(free_s)):
                env = Env(fields=dict(zip(free_f, vals)), sizes=dict(zip(free_s, vals[len(free_f):])))
                try:
                    if any(bool(ev(fn, c, env)) != want for c, want in conds if not any(this_field(x) == nfield for x in walk(c))):
                        continue
                except Unknown:
                    pass
                try:
                    if doms:
                        env.fields[nfield] = ev(fn, doms[-1]["rhs"], env)
                    feasible = True
                    for c, want in conds:
                        try:
                            if bool(ev(fn, c, env)) != want:
                                feasible = False
                        except Unknown:
                            pass
                    if not feasible:
                        continue
                    total += 1
                    env.wrapped = []
                    v0 = ev(fn, ln[1], env)
                    if env.wrapped:
                        env.locs[ln[0]] = v0
                        try:
                            enters = bool(ev(fn, ln[2], env))
                        except Unknown:
                            enters = True
                        if enters:
                            bad.append("%s, %s => %s = %d: `%s` wraps to %d and the loop body runs" % (
                                ", ".join("%s=%d" % kv for kv in env.fields.items() if kv[0] != nfield), ", ".join("%s.size()=%d" % kv for kv in env.sizes.items()), nfield, env.fields.get(nfield, -1), render(ln[1]), v0))
                except Unknown as e:
                    ck.incomplete(R, "%s: %s" % (fn.name, e))
                    bad = None
                    break
            if bad is None:
                continue
            ck.ob(R, "%s/for-init(%s)" % (fn.name, render(ln[1])), not bad,
                  "the loop at line %s starts at the unsigned value `%s`; admissible state %s (one of %d): the wrapped index is used (out-of-range .at() -> uncaught std::out_of_range, compile() terminates)" % (lp.get("l"), render(ln[1]), bad[-1], len(bad)) if bad
                  else "`%s` cannot wrap in the %d admissible states enumerated (values <= %d)" % (render(ln[1]), total, NMAX + 1),
                  fn.file, lp.get("l"))


# -------------------------------------------------------------------------------------------------
# driver
# -------------------------------------------------------------------------------------------------

RULES = [
    ("E14.fence-guarded", "ThreadFence: every read/write of a state member (_open/_okay) in wait/open/close is dominated by a live lock on the fence mutex. Broken for: any two threads using one fence concurrently (data race on the flags, missed updates).", 6),
    ("E14.fence-one-mutex", "ThreadFence: wait, open and close lock one and the same mutex (the one the condition wait releases). Broken for: opener and waiter running concurrently.", 1),
    ("E14.fence-wait-loop", "ThreadFence::wait: after condition_variable::wait returns, the closed-predicate is re-tested by a loop condition on every path to the return. Broken for: spurious wake-ups / notify of an earlier phase (a worker passes a closed fence and scatters next to its neighbour).", 1),
    ("E14.fence-state-machine", "ThreadFence: constructor and close() make the wait predicate true (blocking), open() makes it false. Broken for: every multi-threaded job (deadlock or no synchronisation at all).", 3),
    ("E14.fence-okay-roundtrip", "ThreadFence: wait() returns the member that open(okay) stores its argument in. Broken for: a job in which one worker fails (the others never learn and wait forever / continue next to a dead neighbour).", 1),
    ("E14.fence-notify", "ThreadFence::open: notify_all on the condition variable wait() sleeps on is passed on every path, and not before the state is set unless the fence mutex is held at the notify. Broken for: a waiter already sleeping when the fence is opened (lost wake-up, deadlock).", 1),
    ("E14.combine-locked", "task->combine() is called with a lock on the shared thread mutex held (RAII lock object in scope and dominating the call, or lock()/unlock() around it) in every worker variant that the construction contexts can reach with more than one worker. Broken for: jobs with need_combine (integrals, error norms) on >= 2 threads: lost updates in the reduction.", 13),
    ("E14.shared-mutex", "every Worker construction passes the assembler's own std::mutex member as thread_mutex. Broken for: need_combine jobs on >= 2 threads (each worker locking its own mutex excludes nobody).", 10),
    ("E13.dispatch-asserts", "for every (id, num_workers, strategy) context that assemble()/assemble_master() can construct (bounded enumeration) Worker::operator() dispatches to a variant whose own XASSERTs on id/num_workers hold. Broken for: meshes/settings that resolve to exactly one (or zero) worker threads: the assembly aborts.", 12),
    ("E14.protocol", "for every strategy that can have workers and the worker variant operator() selects for the job's need_scatter flag: the master branch of assemble() and the worker variant exchange fence events such that every wait has an open in the other role in the same round, the happens-before graph is acyclic, no open is erased by a close before its waiter passed, no stale open of an earlier phase satisfies a wait, master and worker run the same number of rounds, colour rounds are ordered through the master. Broken for: the named strategy/job class with >= 2 workers (deadlock or two colours scattered concurrently).", 15),
    ("E7.layered-wait-before-scatter", "layered variant: in the loop iteration `element == wait position` every path to task->scatter() passes wait() on fence id+1. Broken for: layered strategies, >= 2 threads, scattering jobs: thread id scatters its last layer while thread id+1 scatters the adjacent first layer.", 3),
    ("E7.layered-open-after-scatter", "layered variant: open(true) of fence id is reachable only after scatter() of the iteration `element == open position` and is passed on every continuing path of that iteration. Broken for: layered strategies, >= 2 threads: thread id-1 enters its last layer too early (race) or waits forever.", 3),
    ("E5.layered-positions", "layered variant, per construction context: range = [L(T(id-1)), L(T(id))) (consecutive thread_layers entries), wait position = L(T(id)-1) for id < n and none for id = n, open position = L(T(id-1)+1)-1 for id >= 2; prepare() gets element_indices[position]. Broken for: layered strategies (cells assembled twice/never, handshake at the wrong cell, last thread waiting on a fence nobody opens).", 15),
    ("E14.wait-result-checked", "every ThreadFence::wait() in a reachable worker variant is tested by `if(!wait()) return false`. Broken for: a job in which another worker fails (exception in a task): this worker would continue/deadlock instead of terminating.", 12),
    ("E14.failure-opens-fence", "Worker::operator(): the status starts false, is set only from the work functions, and every path to the end with a false status opens the worker's own fence with false. Broken for: a failing worker whose neighbour (layered) or master (coloured) waits on its fence: deadlock.", 5),
    ("E5.range-partition", "single / no-scatter / coloured variants: the ranges [beg(id), end(id)) of ids 1..n abut, start at the lower and end at the upper end of the index interval the variant is responsible for ([0,size) resp. the colour interval), for every enumerated worker count and symbolically (sympy, floor division); the round loop visits every colour interval. Broken for: worker counts that do not divide the cell count (cells skipped or assembled twice).", 10),
    ("E5.thread-layers-ends", "_build_thread_layers asserts thread_layers.front() == 0 and .back() == number of layers. Broken for: layered strategy (first/last layers not assembled).", 1),
    ("E7.join-all-exits", "assemble(): every path from the creation of the threads to a normal return passes a loop joining every thread and then clears the thread vector. Broken for: any threaded job (result used while workers still scatter; next job aborts).", 5),
    ("E7.fences-closed-before-start", "assemble(): a loop closing every fence dominates the creation of the worker threads. Broken for: the second job on one assembler (fences left open by the first job release workers early).", 5),
    ("E13.worker-count-wrap", "work-distribution builders: a loop whose start value subtracts from the unsigned worker count cannot wrap for any admissible count the preceding assignment can produce (bounded enumeration, dominating guards respected). Broken for: meshes so small that zero workers result.", 1),
]


def run(tier):
    ck = Check("C17", tier)
    for name, doc, mi in RULES:
        ck.rule(name, doc, mi)
    ck.rule("E0.instantiable", "the anchored headers instantiate without front-end errors for the driver's jobs", 1)
    variants = [("", ())]
    if tier == "thorough":
        variants.append(("[f32,u32,Simplex3]", ("-DC17_FLOAT",)))
    for tag, extra in variants:
        facts = featlib.extract("tu/c17_domain_assembler.cpp", files=FILES, extra=extra)
        ck.tu(facts)
        errs = facts.errors_in_repo()
        anchored = [e for e in errs if e["file"] in (DA, TH)]
        ck.ob("E0.instantiable", "driver%s" % tag, not anchored,
              "; ".join("%s:%d %s" % (rel(e["file"]), e["line"], e["msg"]) for e in anchored[:3]) if anchored else "DomainAssembler/Worker/ThreadFence instantiate for 5 jobs", DA, 1)
        if facts.diags and not anchored:
            ck.incomplete("E0.instantiable", "driver%s does not compile: %s:%d %s" % (tag, facts.diags[0]["file"], facts.diags[0]["line"], facts.diags[0]["msg"]))
            continue
        if tag == "":
            rule_fence(ck, facts)
            rule_thread_layer_ends(ck, facts)
        try:
            jobs = build_models(facts, tag)
            enum, can, comp = compile_model(facts)
        except Unknown as e:
            ck.incomplete("E13.dispatch-asserts", "model extraction failed%s: %s" % (tag, e))
            continue
        inv_enum = {v: k for k, v in enum.items()}
        if len(jobs) < 5:
            ck.incomplete("E13.dispatch-asserts", "only %d Worker<Job> instantiations found in the driver%s (5 expected)" % (len(jobs), tag))
        nfields = set()
        for job in jobs:
            wm = job.wm
            if wm.ctor is None or wm.call_op is None or job.assemble is None or job.master is None or len(job.sites) < 2:
                ck.incomplete("E13.dispatch-asserts", "%s: constructor/operator()/assemble/assemble_master construction sites incomplete" % job.name)
                continue
            if wm.flag("need_scatter") is None or wm.flag("need_combine") is None:
                ck.incomplete("E13.dispatch-asserts", "%s: need_scatter/need_combine of the task not exposed by the driver" % job.name)
                continue
            missing = [r for r in ("id", "num_workers", "strategy", "thread_mutex", "thread_fences", "element_indices", "color_elements", "layer_elements", "thread_layers") if r not in wm.field_of]
            if missing:
                ck.incomplete("E13.dispatch-asserts", "%s: constructor parameters %s not bound to members" % (job.name, missing))
                continue
            try:
                vctx, problems = variant_contexts(job, enum, can)
            except Unknown as e:
                ck.incomplete("E13.dispatch-asserts", "%s: %s" % (job.name, e))
                continue
            for p in problems[:3]:
                ck.incomplete("E13.dispatch-asserts", "%s: %s" % (job.name, p))
            if problems:
                continue
            nfields.add(this_field(next(s for s in job.sites if s.where == "assemble").arg.get("num_workers")))
            rule_dispatch(ck, job, vctx, inv_enum)
            rule_combine(ck, job, vctx)
            rule_protocol(ck, job, vctx, enum, can, inv_enum)
            rule_layered(ck, job, vctx, enum, inv_enum)
            rule_wait_results(ck, job, vctx)
            rule_failure_open(ck, job)
            rule_partition(ck, job, vctx, enum)
            rule_join(ck, job)
        if tag == "":
            for nf in sorted(x for x in nfields if x):
                rule_count_wrap(ck, facts, nf)
    ck.assume("worker ids / worker counts are enumerated up to %d; the dispatch conditions and assertions compare them with constants <= 2, so larger values behave like %d" % (NMAX, NMAX))
    ck.assume("the master's loops over `_threads.size()` run over the same index set as the creation loop over the worker count (one emplace_back per iteration)")
    ck.assume("mutual exclusion is provided by std::mutex/std::unique_lock/std::condition_variable as specified; lock objects live until the end of their block")
    ck.assume("all workers run the same template code, so one generic worker stands for all in the happens-before matching; the master's for-all loops are checked to address exactly the constructed worker ids")
    ck.note("not decided: that vertex-adjacent cells never lie in one colour / in non-adjacent layers (run-time output of Coloring and _build_layers), that _build_thread_layers yields >= 2 layers per thread (XASSERT elem_fence_open < elem_fence_wait), equality with the serial result, overflow of id*size, the start-fence wait of the layered variant (not necessary: fences are persistent and closed before the threads start)")
    return ck.finish(
        "Static decision of the structural clauses of threaded assembly on the instantiated DomainAssembler/Worker/ThreadFence code: guarded-by and wait/notify discipline of ThreadFence; lock held at combine(); "
        "abstract (id, num_workers, strategy) contexts of the two Worker construction sites pushed through the dispatcher against the targets' own assertions; master/worker fence protocols matched by a happens-before graph per strategy x job class; "
        "CFG path rules of the layered neighbour handshake; sympy normal forms of the element ranges (partition); join/clear/close discipline of assemble(); unsigned wrap of the worker count in the layer builder.",
        trusted_base=["clang 14 front end (AST, template instantiation, CFG)", "featx plugin fact extraction", "sympy (floor/integer simplification), networkx (transitive closure)", "driver tu/c17_domain_assembler.cpp (5 jobs covering need_scatter x need_combine)"])
