"""C17 — threaded assembly is race-free, terminates and equals the serial result.

Engines E14 (lock / fence discipline), E7 (CFG path rules), E13 (dispatch contexts by bounded
enumeration), E5 (sympy normal forms of the element ranges).  All facts come from the clang front end
(driver tu/c17_domain_assembler.cpp instantiates DomainAssembler::assemble / assemble_master and
Worker<Job> for five jobs covering the three (need_scatter, need_combine) classes); no FEAT3 code is run.

Normalisations shared by the rules (round 5): member helpers called on `this` are followed (Proto inlines
their event sequences with integer / fence-reference / status parameters bound to the caller's arguments;
CFG path rules use the helper call as the event when the event is unconditional inside the helper;
combine(), state accesses of ThreadFence, resets in clear() are followed into helpers); switch, if-chain
and named selector constants are one decision table (eval_succ on CFG switch terminators, Proto.decide,
compile_model); loop_normal accepts for / while with the counter declared in or before the loop.
"""
import itertools
import re

import networkx as nx
import sympy

import featlib
from featlib import Check, walk, render, is_call, rel, children

DA = featlib.repo_path("kernel/assembly/domain_assembler.hpp")
TH = featlib.repo_path("kernel/util/thread.hpp")
FILES = DA + "|" + TH + "|/verif/tu/c17_"
NMAX = 5            # bound of the (id, num_workers) enumeration of E13
SENT = (1 << 64) - 1
TASK_CALLS = ("prepare", "assemble", "scatter", "finish", "combine")   # DomainAssemblyJob::Task interface (doxygen, domain_assembler.hpp)


class Unknown(Exception):
    pass


# -------------------------------------------------------------------------------------------------
# per-function index: parents, CFG positions, position-level reachability
# -------------------------------------------------------------------------------------------------

class FX:
    def __init__(self, fn):
        self.fn = fn
        self.cfg = fn.cfg
        self.parent = {}
        for n in fn.nodes():
            for c in children(n):
                self.parent[id(c)] = n
        self.cond_block = {}
        if self.cfg is not None:
            for b in self.cfg.blocks.values():
                if b.get("cond") is not None:
                    self.cond_block.setdefault(b["cond"], b["id"])

    def owns(self, n):
        """n is a node of this function's tree"""
        if not hasattr(self, "_ids"):
            self._ids = {id(x) for x in self.fn.nodes()}
        return id(n) in self._ids

    def ancestors(self, n):
        p = self.parent.get(id(n))
        while p is not None:
            yield p
            p = self.parent.get(id(p))

    def pos(self, n):
        """(block, index) at which node n is evaluated: nearest ancestor-or-self listed in a CFG block
        or being a block's branch condition (index = len(el))"""
        x = n
        while x is not None:
            i = x.get("i")
            if i is not None:
                w = self.cfg.block_of(i)
                if w is not None:
                    return w
                if i in self.cond_block:
                    b = self.cond_block[i]
                    return (b, len(self.cfg.blocks[b]["el"]))
            x = self.parent.get(id(x))
        return None

    def dominates(self, a, b):
        """position a is passed on every path entry -> position b"""
        if a is None or b is None:
            return False
        if a[0] == b[0]:
            return a[1] < b[1]
        return a[0] in self.cfg.dom.get(b[0], ())

    def reach(self, start, target_stmts=(), target_blocks=(), avoid_stmts=(), avoid_blocks=(), cut_edges=()):
        """first target reachable from position `start` (exclusive of the statement at start[1]-1)
        without executing a statement in avoid_stmts, entering a block of avoid_blocks or taking an
        edge of cut_edges; None if no target is reachable.  Returns ("stmt", id) / ("block", id)."""
        cfg = self.cfg
        target_stmts, avoid_stmts = set(target_stmts), set(avoid_stmts)
        target_blocks, avoid_blocks, cut_edges = set(target_blocks), set(avoid_blocks), set(cut_edges)
        seen = set()
        stack = [(start[0], start[1])]
        first = True
        while stack:
            b, k = stack.pop()
            if not first or k == 0:
                if b in avoid_blocks:
                    continue
                if b in target_blocks:
                    return ("block", b)
                if b in seen:
                    continue
                seen.add(b)
            first = False
            el = cfg.blocks[b]["el"]
            stop = False
            for e in el[k:]:
                if e in avoid_stmts:
                    stop = True
                    break
                if e in target_stmts:
                    return ("stmt", e)
            if stop:
                continue
            for s in cfg.succ.get(b, []):
                if (b, s) in cut_edges:
                    continue
                stack.append((s, 0))
        return None

    def guards(self, n, stop=None):
        """[(cond node, polarity)] of the If statements enclosing n (innermost last)"""
        out = []
        child = n
        for p in self.ancestors(n):
            if p is stop:
                break
            if p.get("k") == "If":
                if child is p.get("then"):
                    out.append((p["c"], True))
                elif child is p.get("else"):
                    out.append((p["c"], False))
            child = p
        return out[::-1]

    def enclosing_loops(self, n):
        return [p for p in self.ancestors(n) if p.get("k") in ("For", "While", "Do", "ForRange")]

    def header_block(self, loop):
        """CFG block evaluating the loop condition of a For/While; for ForRange the block with the
        CXXForRangeStmt terminator whose body successor contains the body's statements"""
        cfg = self.cfg
        if loop.get("k") in ("For", "While") and loop.get("c") is not None:
            c = loop["c"]
            for x in walk(c):
                i = x.get("i")
                if i in self.cond_block and cfg.blocks[self.cond_block[i]].get("term") in ("ForStmt", "WhileStmt"):
                    return self.cond_block[i]
            return None
        if loop.get("k") == "ForRange":
            body_ids = {x.get("i") for x in walk(loop.get("body")) if x.get("i") is not None}
            for b in cfg.blocks.values():
                if b.get("term") == "CXXForRangeStmt" and cfg.succ.get(b["id"]):
                    s0 = cfg.succ[b["id"]][0]
                    if set(cfg.blocks[s0]["el"]) & body_ids:
                        return b["id"]
        return None


def eval_succ(fx, blk, env):
    """successors of a CFG block under a concrete environment: the edge taken by a two-way branch or a
    switch whose condition the environment decides (case labels are read off the successor blocks),
    otherwise all successors"""
    fn = fx.fn
    succ = [s_ for s_ in blk.get("succ", []) if s_ is not None]
    if blk.get("cond") is None:
        return succ
    c = fn.by_id(blk["cond"])
    if c is None:
        return succ
    try:
        v = ev(fn, c, env)
    except Unknown:
        return succ
    if blk.get("term") == "SwitchStmt":
        hit, dflt, plain = None, None, None
        for s_ in succ:
            lab = fx.cfg.blocks[s_].get("label")
            lab = fn.by_id(lab) if lab is not None else None
            if lab is None:
                plain = s_
            elif lab.get("k") == "Default":
                dflt = s_
            elif lab.get("k") == "Case" and "v" in (lab.get("v") or {}):
                if int(lab["v"]["v"]) == v:
                    hit = s_
            else:
                return succ
        r = hit if hit is not None else (dflt if dflt is not None else plain)
        return [r] if r is not None else succ
    if len(blk.get("succ", [])) == 2:
        s_ = blk["succ"][0 if v else 1]
        return [s_] if s_ is not None else []
    return succ


def single_def_inits(fn):
    """decl id -> init node of locals that are initialised once and never assigned/incremented"""
    inits, dirty = {}, set()
    for n in fn.nodes():
        if n.get("k") == "Var" and n.get("init") is not None and n.get("d") is not None:
            inits[n["d"]] = n["init"]
        elif n.get("k") == "Assign" and strip(n["lhs"]).get("k") == "Ref":
            dirty.add(strip(n["lhs"]).get("d"))
        elif n.get("k") == "Un" and n.get("op") in ("++", "--") and strip(n["e"]).get("k") == "Ref":
            dirty.add(strip(n["e"]).get("d"))
    return {d: i for d, i in inits.items() if d not in dirty}


def strip(n):
    while n is not None and n.get("k") == "Cast":
        n = n.get("e")
    return n


def this_field(n):
    """name of the field if n is `this->field` (after casts), else None"""
    n = strip(n)
    if n is not None and n.get("k") == "Member" and n.get("field") and (n.get("b") or {}).get("k") == "This":
        return n["n"]
    return None


def is_unsigned(t):
    t = t or ""
    return any(s in t for s in ("size_t", "size_type", "Index", "unsigned"))


# -------------------------------------------------------------------------------------------------
# concrete evaluator (bounded enumeration) and sympy normal forms
# -------------------------------------------------------------------------------------------------

class Env:
    def __init__(self, fields=None, locs=None, consts=None, sizes=None):
        self.fields = dict(fields or {})      # this->field -> int
        self.locs = dict(locs or {})          # decl id -> int
        self.consts = dict(consts or {})      # qualified name of a static constant -> int
        self.sizes = dict(sizes or {})        # this->vec.size() -> int
        self.inits = {}                       # decl id -> initialiser of a local that is never re-assigned
        self.callvals = {}                    # node id of a call -> assumed result
        self.wrapped = []


def ev(fn, n, env):
    n = strip(n)
    k = n.get("k")
    if n.get("i") in env.callvals and k in ("MCall", "Call", "OpCall"):
        return env.callvals[n["i"]]
    if k == "Int":
        return int(n["v"])
    if k == "Bool":
        return 1 if n["v"] else 0
    if k == "Ref":
        if n.get("d") in env.locs:
            return env.locs[n["d"]]
        if "v" in n:
            return int(n["v"])
        if n.get("d") in env.inits:
            return ev(fn, env.inits[n["d"]], env)
        if n.get("qn") in env.consts:
            return env.consts[n["qn"]]
        raise Unknown(render(n))
    if k == "Member":
        f = this_field(n)
        if f is not None:
            if f in env.fields:
                return env.fields[f]
            raise Unknown(render(n))
        if not n.get("field") and n.get("qn") in env.consts:
            return env.consts[n["qn"]]
        raise Unknown(render(n))
    if k == "Un":
        v = ev(fn, n["e"], env)
        if n["op"] == "!":
            return 0 if v else 1
        if n["op"] == "-":
            return -v
        if n["op"] == "~":
            return SENT - v if is_unsigned(fn.ntype(n)) else ~v
        raise Unknown(render(n))
    if k == "Bin":
        op = n["op"]
        if op == "&&":
            return 1 if (ev(fn, n["lhs"], env) and ev(fn, n["rhs"], env)) else 0
        if op == "||":
            return 1 if (ev(fn, n["lhs"], env) or ev(fn, n["rhs"], env)) else 0
        a, b = ev(fn, n["lhs"], env), ev(fn, n["rhs"], env)
        if op in ("+", "-", "*"):
            r = a + b if op == "+" else a - b if op == "-" else a * b
            if r < 0 and is_unsigned(fn.ntype(n)):
                env.wrapped.append(render(n))
                r += 1 << 64
            return r
        if op == "/":
            if b == 0:
                raise Unknown("division by zero in " + render(n))
            return a // b
        if op in ("<", "<=", ">", ">=", "==", "!="):
            return 1 if {"<": a < b, "<=": a <= b, ">": a > b, ">=": a >= b, "==": a == b, "!=": a != b}[op] else 0
        raise Unknown(render(n))
    if k == "MCall" and n.get("n") == "size" and not n.get("a"):
        f = this_field(n.get("obj"))
        if f is not None and f in env.sizes:
            return env.sizes[f]
        raise Unknown(render(n))
    if k == "MCall" and strip(n.get("obj") or {}).get("k") == "This" and not n.get("a"):
        # zero-argument accessor `bool _is_open() const { return _open; }`
        h = accessor_body(fn, n)
        if h is not None:
            return ev(h[0], h[1], env)
        raise Unknown(render(n))
    if k == "Call" and re.search(r"::(min|max)$", n.get("callee", "")) and len(n.get("a", [])) == 2:
        a, b = ev(fn, n["a"][0], env), ev(fn, n["a"][1], env)
        return min(a, b) if n["callee"].endswith("min") else max(a, b)
    if k == "Cond":
        return ev(fn, n["then"], env) if ev(fn, n["c"], env) else ev(fn, n["else"], env)
    raise Unknown(render(n))


def accessor_body(fn, call):
    """(function, returned expression) of a non-virtual zero-argument member function called on `this`
    whose body is a single return statement, else None"""
    facts = CUR.get("facts")
    if facts is None or not fn.cls:
        return None
    c = [f for f in facts.functions if f.cls == fn.cls and f.full == call.get("cfull")]
    if len(c) != 1 or c[0].d.get("virtual") or c[0].params or c[0].body is None:
        return None
    body = c[0].body.get("s", [])
    if len(body) == 1 and body[0].get("k") == "Return" and body[0].get("e") is not None:
        return c[0], body[0]["e"]
    return None


def fields_read(fn, e, depth=0):
    """member fields of `this` read by expression e, accessor helpers included"""
    out = set()
    for x in walk(e or {}):
        f_ = this_field(x)
        if f_ is not None and x.get("k") == "Member":
            out.add(f_)
        if x.get("k") == "MCall" and strip(x.get("obj") or {}).get("k") == "This" and depth < 2:
            h = accessor_body(fn, x)
            if h is not None:
                out |= fields_read(h[0], h[1], depth + 1)
    return out


SENTINEL = sympy.Symbol("SENTINEL")


def VF(name):
    """integer-valued uninterpreted function for the entries of an Index vector"""
    return sympy.Function(name, integer=True)


def sx(fn, n, sym):
    """sympy normal form of an index expression.  `sym` maps ('f', field) / ('l', decl id) to sympy
    expressions; vectors this->V are uninterpreted functions V(.) with size symbol size_V"""
    n = strip(n)
    k = n.get("k")
    if k == "Int":
        return sympy.Integer(int(n["v"]))
    if k == "Ref":
        if ("l", n.get("d")) in sym:
            return sym[("l", n["d"])]
        if "v" in n:
            return sympy.Integer(int(n["v"]))
        if n.get("d") in sym.get(("inits",), {}):
            return sx(fn, sym[("inits",)][n["d"]], sym)
        raise Unknown(render(n))
    if k == "Member":
        f = this_field(n)
        if f is not None:
            return sym.get(("f", f), sympy.Symbol(f, integer=True, nonnegative=True))
        raise Unknown(render(n))
    if k == "Cond" and ("env",) in sym:
        return sx(fn, n["then"] if ev(fn, n["c"], sym[("env",)]) else n["else"], sym)
    if k == "Un" and n["op"] == "~":
        v = sx(fn, n["e"], sym)
        if v == 0:
            return SENTINEL
        raise Unknown(render(n))
    if k == "Bin" and n["op"] in ("+", "-", "*", "/"):
        a, b = sx(fn, n["lhs"], sym), sx(fn, n["rhs"], sym)
        if n["op"] == "+":
            return a + b
        if n["op"] == "-":
            return a - b
        if n["op"] == "*":
            return sympy.expand(a * b)
        return sympy.floor(a / b)
    if k in ("MCall", "OpCall"):
        if k == "MCall":
            obj, name, args = n.get("obj"), n.get("n"), n.get("a", [])
        else:
            if n.get("op") != "[]":
                raise Unknown(render(n))
            obj, name, args = n["a"][0], "at", n["a"][1:]
        o_ = strip(obj)
        hops = 0
        while o_ is not None and o_.get("k") == "Ref" and o_.get("dk") == "local" and o_.get("d") in sym.get(("inits",), {}) and hops < 4:
            o_ = strip(sym[("inits",)][o_["d"]])
            hops += 1
        f = this_field(o_)
        if f is None:
            raise Unknown(render(n))
        f = sym.get(("v", f), f)
        F = VF(f)
        size = sympy.Symbol("size_" + f, integer=True, nonnegative=True)
        if name in ("at", "operator[]") and len(args) == 1:
            return F(sx(fn, args[0], sym))
        if name == "size" and not args:
            return size
        if name == "front" and not args:
            return F(sympy.Integer(0))
        if name == "back" and not args:
            return F(size - 1)
    raise Unknown(render(n))


def short_job(cls):
    m = re.search(r"Worker<FEAT::Assembly::(\w+)", cls) or re.search(r"<FEAT::Assembly::(\w+)", cls)
    return m.group(1) if m else cls[-40:]


# -------------------------------------------------------------------------------------------------
# switch segments, loops
# -------------------------------------------------------------------------------------------------

def switch_segments(sw):
    """[(labels, [statements])] of a Switch whose groups end with Break; labels = enum values (int)
    or 'default'.  Raises Unknown on fall-through between non-empty groups."""
    body = sw.get("body")
    if body is None or body.get("k") != "Block":
        raise Unknown("switch body is not a block")
    segs = []
    labels, stmts, closed = [], [], True
    for st in body.get("s", []):
        x = st
        new_labels = []
        while x is not None and x.get("k") in ("Case", "Default"):
            if x["k"] == "Case":
                v = x.get("v") or {}
                if "v" not in v:
                    raise Unknown("case label without constant value")
                new_labels.append(int(v["v"]))
            else:
                new_labels.append("default")
            x = x.get("s")
        if new_labels:
            if stmts and not closed:
                raise Unknown("fall-through between switch groups")
            if stmts:
                segs.append((labels, stmts))
                labels, stmts = [], []
            labels = labels + new_labels
            closed = False
        if x is None:
            continue
        if x.get("k") == "Break":
            segs.append((labels, stmts))
            labels, stmts, closed = [], [], True
            continue
        stmts.append(x)
    if labels or stmts:
        segs.append((labels, stmts))
    return segs


def counter_step(n, d=None):
    """(decl id, +1/-1) if expression n changes a local counter by one (`++v`, `v--`, `v += 1`,
    `v = v + 1`, `v = 1 + v`), else None"""
    n = strip(n or {})
    if n.get("k") == "Un" and n.get("op") in ("++", "--") and strip(n["e"]).get("k") == "Ref" and strip(n["e"]).get("dk") == "local":
        r = (strip(n["e"])["d"], 1 if n["op"] == "++" else -1)
    elif n.get("k") == "Assign" and strip(n["lhs"]).get("k") == "Ref" and strip(n["lhs"]).get("dk") == "local":
        v = strip(n["lhs"])["d"]
        one = lambda x: strip(x).get("k") == "Int" and int(strip(x)["v"]) == 1
        rhs = strip(n["rhs"])
        if n.get("op") in ("+=", "-=") and one(rhs):
            r = (v, 1 if n["op"] == "+=" else -1)
        elif n.get("op") == "=" and rhs.get("k") == "Bin" and rhs.get("op") in ("+", "-"):
            l_, r_ = strip(rhs["lhs"]), strip(rhs["rhs"])
            if l_.get("k") == "Ref" and l_.get("d") == v and one(r_):
                r = (v, 1 if rhs["op"] == "+" else -1)
            elif rhs["op"] == "+" and r_.get("k") == "Ref" and r_.get("d") == v and one(l_):
                r = (v, 1)
            else:
                return None
        else:
            return None
    else:
        return None
    if d is not None and r[0] != d:
        return None
    return r


def _outside_start(fx, loop, d, init, inc):
    """start value of a counter declared before the loop (`T v = e; for(; c; ++v)`, `for(v = e; ...)`,
    `T v = e; while(c) { ...; ++v; }`): the initialiser / the assignment in the for-init, provided the
    counter is modified nowhere else, is not handed to a callee by reference, and is declared at the
    nesting level of the loop (so that every execution of the loop starts from that value)"""
    fn = fx.fn
    var = next((v for v in fn.nodes() if v.get("k") == "Var" and v.get("d") == d), None)
    if var is None or var.get("ref"):
        return None
    mods = [n for n in fn.nodes() if (n.get("k") == "Assign" and strip(n["lhs"]).get("k") == "Ref" and strip(n["lhs"]).get("d") == d) or
            (n.get("k") == "Un" and n.get("op") in ("++", "--") and strip(n["e"]).get("k") == "Ref" and strip(n["e"]).get("d") == d)]
    allowed = [strip(inc)]
    start = var.get("init")
    i0 = strip(init) if init is not None else None
    if i0 is not None:
        if i0.get("k") == "Assign" and i0.get("op") == "=" and strip(i0["lhs"]).get("d") == d:
            start = i0["rhs"]
            allowed.append(i0)
        elif i0.get("k") not in ("Decl",) or any(v.get("d") == d for v in i0.get("vars", [])):
            return None
    if start is None or any(not any(m is a for a in allowed) for m in mods):
        return None
    for n in fn.nodes():
        if is_call(n):
            for a_, t_ in zip(n.get("a", []), n.get("pt", [])):
                if strip(a_).get("k") == "Ref" and strip(a_).get("d") == d and (fn.type(t_) or "").rstrip().endswith("&") and not (fn.type(t_) or "").startswith("const"):
                    return None
        if n.get("k") == "Un" and n.get("op") == "&" and strip(n.get("e") or {}).get("d") == d:
            return None
    if i0 is None or start is var.get("init"):
        # the declaration must sit directly before the loop at the same nesting level
        outer = lambda x: next((p for p in fx.ancestors(x) if p.get("k") in ("For", "While", "Do", "ForRange")), None)
        if outer(var) is not outer(loop):
            return None
        if not fx.dominates(fx.pos(var), fx.pos(loop.get("c"))):
            return None
    return start


def loop_normal(fx, loop):
    """(var decl id, init node, cond node, step) of a counting loop, else None.  Recognised forms:
    `for(T v = e; c; ++v)` (also `v++`, `v += 1`, `v = v + 1`, `--v` ...), the same with the counter
    declared before the loop or assigned in the for-init, and `T v = e; while(c) { body; ++v; }` with
    the step as the last statement of the body and no `continue` in it"""
    k = loop.get("k")
    if k == "For":
        init, c, inc = loop.get("init"), loop.get("c"), loop.get("inc")
        if c is None or inc is None:
            return None
        if init is not None and init.get("k") == "Decl" and len(init.get("vars", [])) == 1:
            v = init["vars"][0]
            st = counter_step(inc, v["d"])
            if st is not None:
                return (v["d"], v.get("init"), c, st[1])
        st = counter_step(inc)
        if st is None:
            return None
        start = _outside_start(fx, loop, st[0], init, inc)
        if start is None:
            return None
        return (st[0], start, c, st[1])
    if k == "While":
        c, body = loop.get("c"), loop.get("body")
        if c is None or body is None or body.get("k") != "Block" or not body.get("s"):
            return None
        last = body["s"][-1]
        st = counter_step(last)
        if st is None:
            return None
        for n in walk(body):
            if n.get("k") == "Continue":
                lp = next((p for p in fx.ancestors(n) if p.get("k") in ("For", "While", "Do", "ForRange")), None)
                if lp is loop:
                    return None
        # the counter must be tested by the loop condition
        if not any(x.get("k") == "Ref" and x.get("d") == st[0] for x in walk(c)):
            return None
        start = _outside_start(fx, loop, st[0], None, last)
        if start is None:
            return None
        return (st[0], start, c, st[1])
    return None


def loop_start_stmt(fx, loop):
    """node at which the start value of a counting loop is evaluated"""
    ln = loop_normal(fx, loop)
    if ln is None:
        return None
    init = loop.get("init") if loop.get("k") == "For" else None
    if init is not None and init.get("k") == "Decl" and any(v.get("d") == ln[0] for v in init.get("vars", [])):
        return next(v for v in init["vars"] if v.get("d") == ln[0])
    if init is not None and strip(init).get("k") == "Assign":
        return strip(init)
    return next((v for v in fx.fn.nodes() if v.get("k") == "Var" and v.get("d") == ln[0]), None)


# -------------------------------------------------------------------------------------------------
# program model: ThreadFence, Worker<Job> per job, DomainAssembler functions
# -------------------------------------------------------------------------------------------------

LOCK_CLS = re.compile(r"^std::(unique_lock|lock_guard|scoped_lock)<")


def lock_decls(fx):
    """RAII lock objects: [(Var node, mutex expression node)] for `std::unique_lock<std::mutex> l(m)`"""
    out = []
    for n in fx.fn.nodes():
        if n.get("k") == "Var" and n.get("init") is not None:
            c = strip(n["init"])
            if c.get("k") in ("Construct", "TempObj") and LOCK_CLS.match(c.get("ccls", "") or "") and len(c.get("a", [])) == 1:
                m = resolve_alias(fx, c["a"][0])
                if this_field(m) is not None or (m.get("k") == "Ref" and m.get("dk") in ("local", "global", "smember")):
                    out.append((n, m))
    return out


def lock_held_at(fx, use, mutex_pred):
    """name of a mutex m with mutex_pred(m expr) such that a lock on m is held at node `use`:
    an RAII lock object whose declaration dominates the use, whose scope encloses it and which is
    not unlocked/released on a path to it; or an explicit m.lock() dominating the use with no
    m.unlock() on a path between.  None if no lock is held."""
    upos = fx.pos(use)
    anc = {id(a) for a in fx.ancestors(use)}
    for var, m in lock_decls(fx):
        if not mutex_pred(m):
            continue
        dpos = fx.pos(var)
        scope = None
        for p in fx.ancestors(var):
            if p.get("k") == "Block":
                scope = p
                break
        if scope is None or id(scope) not in anc or not fx.dominates(dpos, upos):
            continue
        released = [x for x in fx.fn.nodes() if x.get("k") == "MCall" and x.get("n") in ("unlock", "release")
                    and strip(x.get("obj") or {}).get("d") == var["d"]]
        if any(pos_reaches(fx, fx.pos(r), upos) for r in released):
            continue
        return render(m)
    for n in fx.fn.nodes():
        if n.get("k") == "MCall" and n.get("n") == "lock" and n.get("ccls") == "std::mutex" and mutex_pred(strip(n.get("obj"))):
            lpos = fx.pos(n)
            if not fx.dominates(lpos, upos):
                continue
            unl = [x["i"] for x in fx.fn.nodes() if x.get("k") == "MCall" and x.get("n") == "unlock" and x.get("ccls") == "std::mutex"
                   and render(strip(x.get("obj"))) == render(strip(n.get("obj")))]
            tgt = use.get("i")
            if tgt is None or fx.cfg.block_of(tgt) is None:
                continue
            if fx.reach((lpos[0], lpos[1] + 1), target_stmts=[tgt], avoid_stmts=unl) is None:
                continue
            # no path lock -> unlock -> use
            if any(fx.reach(fx.pos(fx.fn.by_id(u)), target_stmts=[tgt], avoid_stmts=[n["i"]]) for u in unl):
                continue
            return render(strip(n.get("obj")))
    return None


def pos_reaches(fx, a, b):
    """some path leads from position a to position b"""
    if a is None or b is None:
        return True
    if a[0] == b[0] and a[1] < b[1]:
        return True
    return fx.reach((a[0], a[1] + 1), target_blocks=[b[0]]) is not None


def opaque_calls(fx, about=None):
    """calls whose effect the rules do not model: member functions called on `this`, lambdas, and any
    call that receives `this` or (a member named in `about`) as an argument"""
    out = []
    for n in fx.fn.nodes():
        if not is_call(n) or n.get("k") in ("Construct", "TempObj") and LOCK_CLS.match(n.get("ccls", "") or ""):
            continue
        if n.get("callee") == "FEAT::assertion":
            continue
        if n.get("k") == "MCall" and (n.get("obj") or {}).get("k") == "This":
            out.append(n)
            continue
        if n.get("k") == "OpCall" and n.get("op") == "()" and "lambda" in (n.get("callee") or ""):
            out.append(n)
            continue
        for a in n.get("a", []):
            a_ = strip(a)
            if a_.get("k") == "This" or (about and this_field(a_) in about):
                out.append(n)
                break
    return out


def touches_lock(fn, mutex_pred, depth=0):
    """fn (or a member helper it calls, bounded depth) mentions the mutex, declares a lock object, or
    hands `this` to a callee whose body is not followed"""
    for n in fn.nodes():
        if n.get("k") in ("Member", "Ref") and mutex_pred(n):
            return True
        if n.get("k") == "Var" and re.search(r"std::(unique_lock|lock_guard|scoped_lock|shared_lock|mutex)", fn.type(n.get("t")) or ""):
            return True
        if n.get("k") == "MCall" and (n.get("obj") or {}).get("k") == "This":
            h = find_method(fn.cls, n)
            if h is None or depth >= 3 or h.d.get("virtual") or touches_lock(h, mutex_pred, depth + 1):
                return True
        elif is_call(n) and any(strip(a).get("k") == "This" for a in n.get("a", [])):
            return True
    return False


def unmodelled_locking(fx, mutex_pred, followed=()):
    """description of a locking construct on the mutex that lock_held_at() does not model, or None.
    `followed`: helper call nodes whose bodies the caller analyses itself"""
    modelled = {id(v) for v, m in lock_decls(fx)}     # plain locks on identifiable mutexes (ours or another one)
    for n in fx.fn.nodes():
        if n.get("k") == "Var" and id(n) not in modelled and re.search(r"std::(unique_lock|lock_guard|scoped_lock|shared_lock)", fx.fn.type(n.get("t")) or ""):
            return "lock object `%s` (line %s) is not a plain single-mutex RAII lock" % (n.get("n"), n.get("l"))
        if n.get("k") == "MCall" and n.get("n") in ("try_lock", "try_lock_for", "try_lock_until"):
            return "try_lock at line %s" % n.get("l")
        if is_call(n) and not (n.get("k") in ("Construct", "TempObj") and LOCK_CLS.match(n.get("ccls", "") or "")) and n.get("ccls") != "std::mutex":
            if any(mutex_pred(strip(a)) for a in n.get("a", [])):
                return "the mutex is passed to `%s` (line %s)" % (n.get("callee"), n.get("l"))
    for n in opaque_calls(fx):
        if any(n is f_ for f_ in followed):
            continue
        if n.get("k") == "MCall" and (n.get("obj") or {}).get("k") == "This":
            h = find_method(fx.fn.cls, n)
            if h is not None and not h.d.get("virtual") and not touches_lock(h, mutex_pred):
                continue        # a helper that never mentions the mutex or a lock cannot take it
        return "helper call `%s` (line %s) may take the lock" % (n.get("callee") or render(n), n.get("l"))
    return None


class WorkerModel:
    """Worker<Job>: constructor role map, operator(), dispatch targets"""

    def __init__(self, facts, cls, consts):
        self.cls = cls
        self.job = short_job(cls)
        self.consts = consts
        fns = [f for f in facts.functions if f.cls == cls]
        self.ctor = next((f for f in fns if f.d.get("ctor") and len(f.params) >= 3), None)
        self.call_op = next((f for f in fns if f.name == "operator()"), None)
        self.methods = {f.name: f for f in fns if not f.d.get("ctor")}
        self.role = {}      # field -> ctor parameter name
        if self.ctor is not None:
            for i in self.ctor.d.get("inits", []) or []:
                x = strip(i.get("init") or {})
                if x.get("k") == "Ref" and x.get("dk") == "param" and i.get("member"):
                    self.role[i["member"]] = x["n"]
        self.field_of = {v: k for k, v in self.role.items()}
        self._fx = {}

    def fx(self, fn):
        if fn.full not in self._fx:
            self._fx[fn.full] = FX(fn)
        return self._fx[fn.full]

    def _inits_all(self):
        """single-definition locals of all member functions of the worker (decl ids are unique per TU)"""
        if not hasattr(self, "_inits"):
            self._inits = {}
            for f in self.methods.values():
                self._inits.update(single_def_inits(f))
        return self._inits

    def flag(self, name):
        """value of the Task's static flag as read by the worker code (`task->need_scatter`)"""
        for f in self.methods.values():
            for n in f.nodes():
                if n.get("k") == "Member" and n.get("n") == name and not n.get("field"):
                    if n.get("qn") in self.consts:
                        return self.consts[n["qn"]]
                if n.get("k") == "Ref" and n.get("dk") == "smember" and (n.get("qn") or "").endswith("::Task::" + name) and "v" in n:
                    return int(n["v"])          # `TaskType::need_scatter` (if constexpr form)
        # the worker code may not mention the flag in any instantiated branch (`if constexpr`): the
        # driver exposes Job::Task::<flag> for the job this worker is instantiated for
        if "::Worker<" in self.cls:
            job = self.cls[self.cls.index("::Worker<") + len("::Worker<"):-1]
            return self.consts.get("flag:%s:%s" % (job, name), self.consts.get(job + "::Task::" + name))
        return None

    def env(self, ident, nwork, strategy):
        e = Env(consts=self.consts)
        e.inits = self._inits_all()
        for role, val in (("id", ident), ("num_workers", nwork), ("strategy", strategy)):
            f = self.field_of.get(role)
            if f is not None and val is not None:
                e.fields[f] = val
        return e

    def is_dispatcher(self, fn):
        """a member function that only selects a work function: no loop, no task/fence operation of its
        own, and it calls at least one other member function that synchronises"""
        if any(n.get("k") in ("For", "While", "Do", "ForRange") or task_call(n) or fence_call(n) for n in fn.nodes()):
            return False
        return any(n.get("k") == "MCall" and (n.get("obj") or {}).get("k") == "This" and n.get("n") in self.methods and has_sync_events(self.methods[n["n"]]) for n in fn.nodes())

    def dispatch(self, ident, nwork, strategy):
        """set of variant method names operator() can call in this context (concrete CFG walk, switch
        and if-chain alike; a dispatcher helper between operator() and the work functions is walked
        with the same context)"""
        return self._dispatch_in(self.call_op, self.env(ident, nwork, strategy), 0)

    def _dispatch_in(self, fn, env, depth):
        fx = self.fx(fn)
        out = set()
        seen = set()
        st = [fx.cfg.entry]
        while st:
            b = st.pop()
            if b in seen:
                continue
            seen.add(b)
            blk = fx.cfg.blocks[b]
            if blk.get("term") == "CXXTryStmt":
                continue        # handler dispatch block: exceptional flow only
            for e in blk["el"]:
                n = fn.by_id(e)
                if n is not None and n.get("k") == "MCall" and (n.get("obj") or {}).get("k") == "This" and n.get("n") in self.methods and n.get("n") != "operator()":
                    m = self.methods[n["n"]]
                    if not has_sync_events(m):
                        continue        # statistics / logging helper
                    if depth < 2 and m.cfg is not None and self.is_dispatcher(m):
                        out |= self._dispatch_in(m, env, depth + 1)
                    else:
                        out.add(n["n"])
            st.extend(eval_succ(fx, blk, env))
        return out


def task_call(n, name=None):
    """n is `task->name()` on a unique_ptr<TaskType> parameter/local"""
    if n.get("k") != "MCall" or n.get("n") not in TASK_CALLS:
        return False
    if name is not None and n.get("n") != name:
        return False
    o = strip(n.get("obj") or {})
    if o.get("k") == "OpCall" and o.get("op") == "->" and o.get("a"):
        o = strip(o["a"][0])
    return o.get("k") == "Ref" and o.get("dk") in ("param", "local")


def fence_call(n):
    return n.get("k") == "MCall" and n.get("callee") in ("FEAT::ThreadFence::wait", "FEAT::ThreadFence::open", "FEAT::ThreadFence::close")


def resolve_alias(fx, n):
    """follow reference locals (`auto& f = this->_thread_fences.at(i)`) to their initialiser"""
    n = strip(n)
    hops = 0
    while n is not None and n.get("k") == "Ref" and n.get("dk") == "local" and hops < 4:
        var = next((v for v in fx.fn.nodes() if v.get("k") == "Var" and v.get("d") == n["d"]), None)
        if var is None or not var.get("ref") or var.get("init") is None or (fx.parent.get(id(var)) or {}).get("k") == "ForRange":
            break
        n = strip(var["init"])
        hops += 1
    return n


def fence_of(fx, call, fences_field, sym, own=None, forall=None):
    """classify the receiver of a ThreadFence call: 'START' (front), 'END' (back), 'ALL' (range-for
    element), 'OWN'/'NEXT' (index relative to `own`), ('IDX', expr) otherwise"""
    return classify_fence(fx, call.get("obj"), fences_field, sym, own=own)


def classify_fence(fx, expr, fences_field, sym, own=None):
    """classification (see fence_of) of an expression denoting a ThreadFence"""
    o = resolve_alias(fx, expr)
    if o is None:
        raise Unknown("fence receiver")
    if o.get("k") == "Ref":
        # range-for variable over the fences vector
        for p in fx.fn.nodes():
            if p.get("k") == "ForRange" and (p.get("var") or {}).get("d") == o.get("d") and this_field(p.get("range")) == fences_field:
                return "ALL"
        raise Unknown("fence receiver " + render(o))
    if o.get("k") in ("MCall", "OpCall"):
        if o.get("k") == "MCall":
            base, name, args = o.get("obj"), o.get("n"), o.get("a", [])
        else:
            base, name, args = o["a"][0], "at", o["a"][1:]
        if this_field(resolve_alias(fx, base)) != fences_field:
            raise Unknown("fence receiver " + render(o))
        if name == "front":
            return "START"
        if name == "back":
            return "END"
        if name in ("at", "operator[]") and len(args) == 1:
            e = sx(fx.fn, args[0], sym)
            if own is not None and sympy.simplify(e - own) == 0:
                return "OWN"
            if own is not None and sympy.simplify(e - own - 1) == 0:
                return "NEXT"
            return ("IDX", str(e), e)
    raise Unknown("fence receiver " + render(o))


# -------------------------------------------------------------------------------------------------
# clause 1: ThreadFence
# -------------------------------------------------------------------------------------------------

def straight_assigns(fn):
    """field -> constant/param assigned by a branch-free method body (chained `a = b = v` included)"""
    out = {}
    if any(n.get("k") in ("If", "For", "While", "Do", "Switch", "Cond") for n in fn.nodes()):
        raise Unknown("branches in " + fn.full)

    def val(n):
        n = strip(n)
        if n.get("k") == "Assign":
            return val(n["rhs"])
        return n
    for n in fn.nodes():
        if n.get("k") == "Assign" and n.get("op") == "=":
            f = this_field(n["lhs"])
            if f is not None:
                out[f] = val(n["rhs"])
    return out


def method_assigns(fn, bind=None, depth=0):
    """field -> value node stored by a branch-free member function, statements in order, branch-free
    member helpers called on `this` included with their parameters replaced by the caller's arguments"""
    out = {}
    bind = bind or {}
    if any(n.get("k") in ("If", "For", "While", "Do", "Switch", "Cond", "ForRange", "Try") for n in fn.nodes()):
        raise Unknown("branches in " + fn.full)

    def val(n):
        n = strip(n)
        if n.get("k") == "Assign":
            return val(n["rhs"])
        if n.get("k") == "Ref" and n.get("dk") == "param" and n.get("d") in bind:
            return bind[n["d"]]
        return n
    for n in fn.nodes():
        if n.get("k") == "Assign" and n.get("op") == "=":
            f = this_field(n["lhs"])
            if f is not None:
                out[f] = val(n["rhs"])
        elif n.get("k") == "MCall" and (n.get("obj") or {}).get("k") == "This":
            h = find_method(fn.cls, n)
            if h is None or h.body is None or depth >= 2 or h.d.get("virtual") or len(h.params) != len(n.get("a", [])):
                raise Unknown("helper `%s` in %s() not followed" % (n.get("callee"), fn.name))
            out.update(method_assigns(h, {p_["d"]: val(a_) for p_, a_ in zip(h.params, n.get("a", []))}, depth + 1))
    return out


def rule_fence(ck, facts):
    R = "E14.fence-guarded"
    fns = [f for f in facts.functions if f.cls == "FEAT::ThreadFence"]
    ctor = next((f for f in fns if f.d.get("ctor")), None)
    meth = {f.name: f for f in fns if not f.d.get("ctor") and not f.d.get("dtor")}
    if ctor is None or not all(m in meth for m in ("wait", "open", "close")):
        ck.incomplete(R, "FEAT::ThreadFence constructor/wait/open/close not found in kernel/util/thread.hpp")
        return
    is_sync = lambda t: ("std::mutex" in t) or ("condition_variable" in t)
    state, atomic = set(), set()
    for f in fns:
        for i in f.d.get("inits", []) or []:
            if i.get("member"):
                state.add(i["member"])
        for n in f.nodes():
            fld = this_field(n)
            if fld is not None and n.get("k") == "Member" and not is_sync(f.ntype(n)):
                state.add(fld)
                if "atomic" in f.ntype(n):
                    atomic.add(fld)
    if atomic:
        ck.incomplete(R, "ThreadFence state member(s) %s are std::atomic: the lock-based discipline rules do not model atomics" % sorted(atomic))
        return
    mutex_of = {}
    api = ("wait", "open", "close")
    ext_called = {n.get("callee") for g in facts.functions if g.cls != "FEAT::ThreadFence" for n in g.nodes() if n.get("k") == "MCall" and n.get("ccls") == "FEAT::ThreadFence"}

    def internal_sites(f):
        return [(g, n) for g in fns if g is not f for n in g.nodes()
                if n.get("k") == "MCall" and (n.get("obj") or {}).get("k") == "This" and (n.get("cfull") == f.full or n.get("callee") == f.qn)]

    def is_private_helper(f):
        """only ever entered from other member functions of the fence (guard may live in the callers)"""
        return f.name not in api and f.qn not in ext_called and not f.d.get("virtual") and bool(internal_sites(f))

    def accesses(f, depth=0):
        """(field, line, mutex held or None, via helper name or None) for every state access executed
        by f, private helpers included; for an access inside a helper the lock may be held in the
        helper or at the call of the helper"""
        fx = FX(f)
        mp = lambda e, f=f: this_field(e) is not None and "std::mutex" in f.ntype(e)
        for n in f.nodes():
            fld = this_field(n)
            if n.get("k") == "Member" and fld in state:
                yield fld, n.get("l"), lock_held_at(fx, n, mp), None
            elif n.get("k") == "MCall" and (n.get("obj") or {}).get("k") == "This":
                h = find_method(f.cls, n)
                if h is None or depth >= 2 or not is_private_helper(h):
                    continue
                at_call = lock_held_at(fx, n, mp)
                for fld2, l2, m2, via2 in accesses(h, depth + 1):
                    yield fld2, l2, (m2 or at_call), (via2 or h.name)
    for name, f in sorted(meth.items()):
        if is_private_helper(f):
            continue            # judged at its callers
        fx = FX(f)
        mp = lambda e, f=f: this_field(e) is not None and "std::mutex" in f.ntype(e)
        per_field = {}
        for fld, l, m, via in accesses(f):
            per_field.setdefault(fld, []).append((m, l, via))
        for fld, acc in sorted(per_field.items()):
            bad = [l for m, l, via in acc if m is None]
            vias = sorted({via for m, l, via in acc if via})
            if bad:
                um = unmodelled_locking(fx, mp)
                if um is not None:
                    ck.incomplete(R, "ThreadFence::%s/%s: no modelled lock held at line(s) %s, but %s" % (name, fld, bad, um))
                    continue
            ck.ob(R, "ThreadFence::%s/%s" % (name, fld), not bad,
                  "state member %s is accessed in ThreadFence::%s%s at line(s) %s without a lock on the fence mutex that dominates the access and is still held" % (
                      fld, name, " (through the private helper %s, neither locked there nor at its call)" % ", ".join(vias) if vias else "", bad) if bad
                  else "every access to %s in %s()%s is dominated by a live lock on %s" % (fld, name, " (incl. the private helper %s)" % ", ".join(vias) if vias else "", acc[0][0]), f.file, f.line)
            for m, l, via in acc:
                if m is not None:
                    mutex_of.setdefault(name, set()).add(m)
    allm = set().union(*mutex_of.values()) if mutex_of else set()
    if allm:
        ck.ob("E14.fence-one-mutex", "ThreadFence/mutex", len(allm) == 1,
              "wait/open/close lock the mutex(es) %s; mutual exclusion of the state needs one and the same mutex" % sorted(allm), meth["wait"].file, meth["wait"].line)

    # --- wait(): condition wait inside a loop on the state predicate
    R = "E14.fence-wait-loop"
    w = meth["wait"]
    fx = FX(w)
    cw = [n for n in w.nodes() if n.get("k") == "MCall" and n.get("callee", "").startswith("std::condition_variable::wait")]
    pred_cond = None
    if len(cw) != 1:
        ck.incomplete(R, "ThreadFence::wait: expected exactly one condition_variable wait, found %d" % len(cw))
    else:
        c = cw[0]
        cname = c.get("callee", "").split("<")[0].rsplit("::", 1)[-1]
        nargs = len(c.get("a", []))
        has_pred = (cname == "wait" and nargs == 2) or (cname in ("wait_for", "wait_until") and nargs == 3)
        if has_pred:
            # wait(lock, pred) == while(!pred()) wait(lock); the timed forms re-test the predicate as
            # well (that they can give up with the predicate false is E14.fence-wait-returns-open)
            lam = strip(c["a"][-1])
            body = [x for x in (lam.get("body") or {}).get("s", [])] if lam.get("k") == "Lambda" and (lam.get("body") or {}).get("k") == "Block" else []
            # the predicate must read the live state member (through the captured `this`), not a copy
            # taken when the lambda was created (init-capture by value)
            reads = {this_field(x) for x in walk(body[0].get("e") or {})} & state if len(body) == 1 and body[0].get("k") == "Return" else set()
            if len(body) == 1 and body[0].get("k") == "Return" and reads:
                pred_cond = {"k": "Un", "op": "!", "e": body[0]["e"], "t": body[0]["e"].get("t")}
                ck.ob(R, "ThreadFence::wait/predicate-loop", True,
                      "condition_variable::%s(lock, ..., pred) re-tests the predicate `%s` (reads %s) after every wake-up" % (cname, render(body[0]["e"]), sorted(reads)), w.file, c.get("l"))
            else:
                ck.incomplete(R, "ThreadFence::wait: predicate argument of condition_variable::wait is not a single-return lambda over the fence state")
        else:
            # every path from the wait call to the exit re-tests a branch condition that reads the state
            cblocks = [b["id"] for b in fx.cfg.blocks.values() if b.get("cond") is not None and len(b.get("succ", [])) == 2
                       and (fields_read(w, w.by_id(b["cond"])) & state)]
            pos = fx.pos(c)
            # the wait's own block may end in the re-test (`wait(lock); if(open) break;`)
            esc = None if pos[0] in cblocks else fx.reach((pos[0], pos[1] + 1), target_blocks=[fx.cfg.exit], avoid_blocks=cblocks)
            loops = fx.enclosing_loops(c)
            ok = esc is None and bool(cblocks)
            helper_pred = any(is_call(x) for b in fx.cfg.blocks.values() if b.get("cond") is not None for x in walk(w.by_id(b["cond"]) or {})
                              if x.get("callee") != c.get("callee") and accessor_body(w, x) is None)
            if not ok and (helper_pred or [x for x in opaque_calls(fx) if accessor_body(w, x) is None]):
                ck.incomplete(R, "ThreadFence::wait: the branch conditions around condition_variable::wait call helpers; the re-test of the fence state is not visible")
            else:
                ck.ob(R, "ThreadFence::wait/predicate-loop", ok,
                      "after _cvar.wait() returns the state predicate is re-tested by a branch condition before wait() can return (spurious wake-ups)" if ok
                      else "after condition_variable::wait at line %s a path reaches the return of wait() without re-testing the fence state: a spurious wake-up (or a notify of an earlier phase) lets wait() return while the fence is closed" % c.get("l"),
                      w.file, c.get("l"))
            if loops and loops[0].get("k") in ("While", "For") and loops[0].get("c") is not None:
                pred_cond = loops[0]["c"]

    # --- wait() returns only after it has seen the fence open
    R = "E14.fence-wait-returns-open"
    try:
        ctor_init = {i["member"]: i["init"] for i in ctor.d.get("inits", []) or [] if i.get("member") and i.get("init")}

        def bool_env(assign):
            e_ = Env()
            for fld, v in assign.items():
                v = strip(v)
                if v.get("k") == "Bool":
                    e_.fields[fld] = 1 if v["v"] else 0
            return e_
        env_open, env_closed = bool_env(method_assigns(meth["open"])), bool_env(method_assigns(meth["close"]))
        for fld, v in bool_env(ctor_init).fields.items():
            env_closed.fields.setdefault(fld, v)
        waits_ = [n for n in w.nodes() if n.get("k") == "MCall" and n.get("callee", "").startswith("std::condition_variable::wait")]
        establishing, cut = [], []

        def pred_of(n):
            """value of the predicate lambda of a predicate wait under an environment, or None"""
            nm = n.get("callee", "").split("<")[0].rsplit("::", 1)[-1]
            na = len(n.get("a", []))
            if not ((nm == "wait" and na == 2) or (nm in ("wait_for", "wait_until") and na == 3)):
                return None, nm
            lam = strip(n["a"][-1])
            body = (lam.get("body") or {}).get("s", []) if lam.get("k") == "Lambda" else []
            if len(body) != 1 or body[0].get("k") != "Return" or body[0].get("e") is None:
                raise Unknown("predicate of %s at line %s is not a single-return lambda" % (nm, n.get("l")))
            return body[0]["e"], nm
        for n in waits_:
            pe, nm = pred_of(n)
            if pe is None:
                continue
            vo, vc = ev(w, pe, env_open), ev(w, pe, env_closed)
            if not (vo and not vc):
                continue                # not the `fence is open` predicate: establishes nothing
            if nm == "wait":
                establishing.append(n["i"])         # returns only with the predicate true
            else:
                # returns the predicate's value: true after open(), false after a timeout
                env_open.callvals[n["i"]] = 1
                env_closed.callvals[n["i"]] = 0
        for b in fx.cfg.blocks.values():
            if b.get("cond") is None or len(b.get("succ", [])) != 2:
                continue
            cnd = w.by_id(b["cond"])
            if cnd is None:
                continue
            try:
                vo, vc = ev(w, cnd, env_open), ev(w, cnd, env_closed)
            except Unknown:
                continue
            if bool(vo) != bool(vc):
                s_open = b["succ"][0 if vo else 1]
                if s_open is not None:
                    cut.append((b["id"], s_open))   # the edge taken when the fence is open
        if not cut and not establishing and not waits_:
            raise Unknown("neither a test of the fence state nor a condition-variable wait found in wait()")
        if [x for x in opaque_calls(fx) if accessor_body(w, x) is None]:
            raise Unknown("wait() calls helpers")
        esc = fx.reach((fx.cfg.entry, 0), target_blocks=[fx.cfg.exit], avoid_stmts=establishing, cut_edges=cut, avoid_blocks=fx.cfg.noreturn_blocks())
        timed = [n for n in waits_ if not n.get("callee", "").split("<")[0].endswith("::wait")]
        ck.ob(R, "ThreadFence::wait/returns-open", esc is None,
              "every path to a return of wait() takes the `fence is open` edge of a state test, or passes an untimed predicate wait, under the fence mutex" if esc is None
              else "wait() can return without ever having seen the fence open%s: the callers take the result for the status set by open() - a worker treats `false` as a failed neighbour and drops its remaining cells, `true` lets it scatter next to a neighbour that has not finished" % (
                  " (the timed %s at line %s gives up with the predicate still false and that path reaches a return)" % (timed[0].get("callee", "").split("<")[0].rsplit("::", 1)[-1], timed[0].get("l")) if timed else ""),
              w.file, (timed[0] if timed else (waits_[0] if waits_ else w.body)).get("l"))
    except Unknown as e:
        ck.incomplete(R, "ThreadFence::wait: %s" % e)

    # --- state machine: ctor/close block, open releases; okay round trip
    R = "E14.fence-state-machine"

    def would_block(env):
        """wait() entered in the state `env`: True if it reaches a condition-variable wait that sleeps
        (no predicate, or predicate false) before a return, False if it returns without sleeping;
        loop forms, predicate lambdas and accessor helpers alike (concrete walk of the CFG)"""
        seen = set()
        b_ = fx.cfg.entry
        for _step in range(64):
            if b_ in seen or b_ == fx.cfg.exit:
                return False
            seen.add(b_)
            blk = fx.cfg.blocks[b_]
            for e_ in blk["el"]:
                n_ = w.by_id(e_)
                if n_ is not None and n_.get("k") == "MCall" and n_.get("callee", "").startswith("std::condition_variable::wait"):
                    nm = n_["callee"].split("<")[0].rsplit("::", 1)[-1]
                    na = len(n_.get("a", []))
                    if (nm == "wait" and na == 2) or (nm in ("wait_for", "wait_until") and na == 3):
                        lam = strip(n_["a"][-1])
                        body = (lam.get("body") or {}).get("s", []) if lam.get("k") == "Lambda" else []
                        if len(body) != 1 or body[0].get("k") != "Return":
                            raise Unknown("predicate of the condition wait is not a single-return lambda")
                        if not ev(w, body[0]["e"], env):
                            return True
                        env.callvals[n_["i"]] = 1       # a (timed) predicate wait returns the predicate's value
                    else:
                        return True
            nxt = eval_succ(fx, blk, env)
            if len(nxt) != 1:
                if not nxt:
                    return False
                raise Unknown("branch `%s` in wait() not decided by the fence state" % render(w.by_id(blk["cond"]) or {}))
            b_ = nxt[0]
        raise Unknown("walk of wait() did not terminate")
    if not cw:
        ck.incomplete(R, "ThreadFence::wait: no condition-variable wait found")
    else:
        def state_env(assign):
            env = Env()
            for fld, v in assign.items():
                v = strip(v)
                if v.get("k") == "Bool":
                    env.fields[fld] = 1 if v["v"] else 0
            return env
        try:
            init = {i["member"]: i["init"] for i in ctor.d.get("inits", []) or [] if i.get("member") and i.get("init")}
            for who, fn, want in (("ThreadFence()", ctor, 1), ("close", meth["close"], 1), ("open", meth["open"], 0)):
                try:
                    assign = init if fn is ctor else method_assigns(fn)
                    if fn is not ctor and [x for x in opaque_calls(FX(fn)) if not (x.get("k") == "MCall" and (x.get("obj") or {}).get("k") == "This")]:
                        raise Unknown("`this` is handed to another function in %s()" % who)
                    b = 1 if would_block(state_env(assign)) else 0
                    ck.ob(R, "ThreadFence/%s" % who, b == want,
                          "after %s a thread entering wait() %s (%s expected: the fence must %s)" % (who, "sleeps on the condition variable" if b else "returns without sleeping", "sleeping" if want else "passing", "block" if want else "let waiters pass"),
                          fn.file, fn.line)
                except Unknown as e:
                    ck.incomplete(R, "%s: the state read by the wait predicate is not set to constants by plain assignments (%s)" % (who, e))
        except Unknown as e:
            ck.incomplete(R, str(e))
    R = "E14.fence-okay-roundtrip"
    rets = [n for n in walk(w.body, prune=lambda x: x.get("k") == "Lambda") if n.get("k") == "Return"]
    op = meth["open"]
    try:
        oas = method_assigns(op)
        def returned_field(r):
            f_ = this_field(r.get("e"))
            if f_ is None:
                # e.g. a local copy taken under the lock
                r0 = strip(r.get("e") or {})
                if r0.get("k") == "Ref" and r0.get("dk") == "local":
                    ini = single_def_inits(w).get(r0["d"])
                    f_ = this_field(ini) if ini is not None else None
            return f_
        rfs = {returned_field(r) for r in rets}
        rf = rfs.pop() if len(rfs) == 1 else None      # several returns of the same member (early return) are one
        if rf is None or len(op.params) != 1:
            raise Unknown("wait() does not return a state member / open() does not take one status parameter")
        src = strip(oas.get(rf) or {})
        pd = op.params[0]["d"]
        if src.get("k") == "Ref" and src.get("d") == pd:
            ck.ob(R, "ThreadFence/wait-returns-open-argument", True, "wait() returns %s, which open(%s) sets from its parameter" % (rf, op.params[0]["n"]), w.file, rets[0].get("l"))
        elif src.get("k") == "Bool" or (rf not in oas and not opaque_calls(FX(op)) and not any(x.get("d") == pd for x in op.nodes() if x.get("k") == "Ref")):
            ck.ob(R, "ThreadFence/wait-returns-open-argument", False,
                  "wait() returns `%s` but open() %s: a failed neighbour/worker is not seen by the waiter" % (rf, "stores the constant %s there" % render(src) if src else "never stores its status parameter"),
                  w.file, rets[0].get("l"))
        else:
            raise Unknown("open() computes %s by `%s`" % (rf, render(src) if src else "a construct that is not a plain assignment"))
    except Unknown as e:
        ck.incomplete(R, str(e))

    # --- open(): notify on every path, not before the state is set unless the lock is held
    R = "E14.fence-notify"
    fxo = FX(op)
    nts = [n for n in op.nodes() if n.get("k") == "MCall" and n.get("callee") in ("std::condition_variable::notify_all",)]
    one = [n for n in op.nodes() if n.get("k") == "MCall" and n.get("callee") == "std::condition_variable::notify_one"]
    opq = [n for n in opaque_calls(fxo)] + [n for n in op.nodes() if is_call(n) and any("condition_variable" in op.ntype(strip(a)) for a in n.get("a", []))]
    if one and not nts:
        ck.ob(R, "ThreadFence::open/notify", False, "open() uses notify_one: several threads wait on one fence (all workers wait on the start fence), only one is woken", op.file, one[0].get("l"))
    elif not nts and opq:
        ck.incomplete(R, "ThreadFence::open: no notify_all, but helper call `%s` may notify" % (opq[0].get("callee") or render(opq[0])))
    elif not nts:
        ck.ob(R, "ThreadFence::open/notify", False, "open() never calls notify_all on the condition variable: waiting threads are not woken", op.file, op.line)
    else:
        ids = [n["i"] for n in nts]
        esc = fxo.reach((fxo.cfg.entry, 0), target_blocks=[fxo.cfg.exit], avoid_stmts=ids + [n["i"] for n in opq if fxo.cfg.block_of(n.get("i")) is not None])
        sets = [n for n in op.nodes() if n.get("k") == "Assign" and this_field(n["lhs"]) in state and fxo.cfg.block_of(n["i"]) is not None]

        def sets_state(h, depth=0):
            return any((x.get("k") == "Assign" and this_field(x["lhs"]) in state) or
                       (x.get("k") == "MCall" and (x.get("obj") or {}).get("k") == "This" and depth < 2 and (find_method(h.cls, x) is None or sets_state(find_method(h.cls, x), depth + 1)))
                       for x in h.nodes())
        # a member helper that stores the state counts as the store
        sets += [n for n in op.nodes() if n.get("k") == "MCall" and (n.get("obj") or {}).get("k") == "This" and n.get("i") is not None and fxo.cfg.block_of(n["i"]) is not None
                 and (find_method(op.cls, n) is None or sets_state(find_method(op.cls, n)))]
        bad = []
        mp = lambda e: this_field(e) is not None and "std::mutex" in op.ntype(e)
        for nt in nts:
            held = lock_held_at(fxo, nt, mp)
            for s_ in sets:
                if not fxo.dominates(fxo.pos(s_), fxo.pos(nt)) and held is None:
                    bad.append("notify_all (line %s) can run before `%s` (line %s) with the fence mutex not held: a waiter re-tests the predicate, sleeps again and the wake-up is lost" % (nt.get("l"), render(s_), s_.get("l")))
        if bad and unmodelled_locking(fxo, mp):
            ck.incomplete(R, "ThreadFence::open: notify precedes the state update and the locking is not modelled (%s)" % unmodelled_locking(fxo, mp))
            return
        same_cv = cw and all(render(strip(n.get("obj"))) == render(strip(cw[0].get("obj"))) for n in nts)
        ok = esc is None and not bad and same_cv
        ck.ob(R, "ThreadFence::open/notify", ok,
              "every path through open() notifies all waiters of the condition variable wait() sleeps on, after the state is set or under the fence mutex" if ok
              else ("; ".join(bad) or ("a path through open() skips notify_all" if esc is not None else "open() notifies a different condition variable than wait() sleeps on")),
              op.file, nts[0].get("l"))


# -------------------------------------------------------------------------------------------------
# DomainAssembler model: construction sites, abstract contexts (E13)
# -------------------------------------------------------------------------------------------------

def path_conditions(fx, block):
    """[(cond node, required truth)] of the two-way branches dominating `block` of which only one
    edge leads to it"""
    cfg = fx.cfg
    out = []
    for d in cfg.dom.get(block, ()):
        if d == block:
            continue
        blk = cfg.blocks[d]
        ss = blk.get("succ", [])
        if blk.get("cond") is None or len(ss) != 2 or ss[0] is None or ss[1] is None:
            continue
        r0 = block in cfg.reachable(ss[0], avoid=(d,))
        r1 = block in cfg.reachable(ss[1], avoid=(d,))
        if r0 != r1:
            c = fx.fn.by_id(blk["cond"])
            if c is None:
                continue
            if not r0 and blk.get("term") in ("ForStmt", "WhileStmt", "DoStmt", "CXXForRangeStmt"):
                # exit edge of an earlier loop: a terminating loop is left for every value of the
                # loop-invariant fields, so its exit condition over loop-variant locals is no guard
                variant_locals = {x.get("d") for x in walk(c) if x.get("k") == "Ref" and x.get("dk") == "local"} - set(single_def_inits(fx.fn))
                if variant_locals:
                    continue
            out.append((c, r0))
    return out


def relevant_condition(c, fields, locs):
    """an unevaluable guard that may nevertheless constrain the enumerated fields/locals: it mentions
    one of them or calls a member function / passes `this` somewhere"""
    for x in walk(c):
        if x.get("k") == "Member" and this_field(x) in fields:
            return True
        if x.get("k") == "Ref" and x.get("d") in locs:
            return True
        if x.get("k") == "MCall" and (x.get("obj") or {}).get("k") == "This":
            return True
        if is_call(x) and any(strip(a).get("k") == "This" for a in x.get("a", [])):
            return True
    return False


class Site:
    """one `Worker<Job>(job, id, num_workers, ...)` construction"""

    def __init__(self, fx, node):
        self.fx = fx
        self.node = node
        self.fn = fx.fn
        pn = node.get("pn", [])
        self.arg = {pn[i]: a for i, a in enumerate(node.get("a", [])) if i < len(pn)}
        self.where = fx.fn.name
        self.unevaluated = []     # dominating guards that could not be evaluated but may constrain id / worker count

    def contexts(self):
        """set of (id, num_workers) values the constructor can receive, by enumeration of the free
        integer fields / loop variables up to NMAX under the evaluable dominating path conditions"""
        fx, fn = self.fx, self.fn
        pos = fx.pos(self.node)
        conds = path_conditions(fx, pos[0])
        exprs = [self.arg.get("id"), self.arg.get("num_workers")] + [c for c, _ in conds]
        inits = single_def_inits(fn)
        fields, locs = set(), {}
        todo = list(exprs)
        while todo:
            e = todo.pop()
            for x in walk(e):
                f = this_field(x)
                if x.get("k") == "Member" and f is not None and "vector" not in fn.ntype(x) and is_unsigned(fn.ntype(x)):
                    fields.add(f)
                if x.get("k") == "Ref" and x.get("dk") == "local" and x["d"] not in locs:
                    if x["d"] in inits:
                        todo.append(inits[x["d"]])
                    elif any(x is y for a_ in (self.arg.get("id"), self.arg.get("num_workers")) for y in walk(a_)) or \
                            any(loop_normal(fx, lp) and loop_normal(fx, lp)[0] == x["d"] for lp in fx.enclosing_loops(self.node)):
                        locs[x["d"]] = x["n"]
        lower = {}
        for lp in fx.enclosing_loops(self.node):
            ln = loop_normal(fx, lp)
            if ln and ln[0] in locs and ln[3] == 1:
                try:
                    lower[ln[0]] = ev(fn, ln[1], Env())
                except Unknown:
                    lower[ln[0]] = 0
        for d in list(locs):
            if d not in lower:
                raise Unknown("local `%s` in a Worker constructor argument is not a counting loop variable" % locs[d])
        fields = sorted(fields)
        lds = sorted(lower)
        out = set()
        for vals in itertools.product(range(NMAX + 1), repeat=len(fields) + len(lds)):
            env = Env(fields=dict(zip(fields, vals[:len(fields)])), locs=dict(zip(lds, vals[len(fields):])))
            env.inits = inits
            if any(env.locs[d] < lower[d] for d in lds):
                continue
            feasible = True
            for c, want in conds:
                try:
                    if bool(ev(fn, c, env)) != want:
                        feasible = False
                        break
                except Unknown:
                    if relevant_condition(c, set(fields), set(lds)) and render(c) not in self.unevaluated:
                        self.unevaluated.append(render(c))
            if not feasible:
                continue
            out.add((ev(fn, self.arg["id"], env), ev(fn, self.arg["num_workers"], env)))
        return out


class JobModel:
    def __init__(self, facts, wm, tag):
        self.wm = wm
        self.tag = tag
        self.job = wm.job
        self.name = "Worker<%s>%s" % (wm.job, tag)
        self.sites = []
        self.assemble = None
        self.master = None
        for f in facts.functions:
            if "::Worker<" in f.cls or f.name not in ("assemble", "assemble_master"):
                continue
            cons = [n for n in f.nodes() if n.get("k") in ("Construct", "TempObj") and n.get("ccls") == wm.cls and len(n.get("a", [])) >= 3]
            if not cons:
                continue
            fx = FX(f)
            if f.name == "assemble":
                self.assemble = fx
            else:
                self.master = fx
            for c in cons:
                self.sites.append(Site(fx, c))


def build_models(facts, tag=""):
    consts = {}
    for f in facts.functions:
        for n in f.nodes():
            if n.get("k") == "Ref" and n.get("dk") == "smember" and "v" in n and n.get("qn"):
                consts[n["qn"]] = int(n["v"])
    # the driver's c17_flags<Job>() exposes Job::Task::need_scatter / need_combine as evaluated constants
    for f in facts.functions:
        if f.name.startswith("c17_flags") and "<" in f.full:
            jobname = f.full[f.full.index("<") + 1:f.full.rindex(">")]
            for n in f.nodes():
                if n.get("k") == "Var" and n.get("n") in ("need_scatter", "need_combine") and "v" in strip(n.get("init") or {}):
                    consts["flag:%s:%s" % (jobname, n["n"])] = int(strip(n["init"])["v"])
    classes = sorted({f.cls for f in facts.functions if re.search(r"DomainAssembler<.*>::Worker<", f.cls) and f.name == "operator()"})
    jobs = []
    for cls in classes:
        jobs.append(JobModel(facts, WorkerModel(facts, cls, consts), tag))
    return jobs


def compile_model(facts):
    """(enum values of ThreadingStrategy by name, set of strategy values for which _compile can set a
    non-zero worker count, name of the worker-count field)"""
    comp = next((f for f in facts.functions if f.name == "_compile" and "::Worker<" not in f.cls), None)
    if comp is None:
        raise Unknown("DomainAssembler::_compile not found")
    enum = {}
    for f in facts.functions:
        for n in f.nodes():
            if n.get("k") == "Ref" and n.get("dk") == "enum" and "ThreadingStrategy::" in (n.get("qn") or ""):
                enum[n["qn"].rsplit("::", 1)[-1]] = int(n["v"])
    # which unsigned count fields can the member functions assign that _compile calls when the
    # strategy member has value v at its decision points?  The body is specialised per value: switch
    # groups, if-chain branches and selector constants decided by v are replaced by the branch taken
    # (assignments to the strategy inside _compile - resolution of `automatic` - are not followed: v
    # is the value the work distribution is built for, which is the value assemble() hands on).
    sfields = set()
    for n in comp.nodes():
        if n.get("k") in ("If", "Switch"):
            for x in walk(n["c"]):
                f_ = this_field(x)
                if f_ is not None and x.get("k") == "Member" and "ThreadingStrategy" in comp.ntype(x):
                    sfields.add(f_)
    if not sfields:
        # the decision may sit in a helper: every strategy-typed member is a candidate
        for f in facts.functions:
            if f.cls == comp.cls:
                for x in f.nodes():
                    if x.get("k") == "Member" and this_field(x) and "ThreadingStrategy" in f.ntype(x):
                        sfields.add(this_field(x))
    if len(sfields) != 1:
        raise Unknown("_compile: strategy member not identified (%s)" % sorted(sfields))
    sfield = sfields.pop()
    by_name = {}
    for f in facts.functions:
        if f.cls == comp.cls and f.body is not None:
            by_name.setdefault(f.full, f)
    decided = {"n": 0}

    def assigned(fn, env, depth, seen):
        """fields assigned on the statements of fn that remain after specialisation, member helpers included"""
        out = set()
        inits = single_def_inits(fn)

        def val(c):
            e2 = Env(fields=env.fields, consts=env.consts)
            e2.inits = inits
            try:
                return ev(fn, c, e2)
            except Unknown:
                return None

        def visit(st):
            """collects the assigned fields of st; True if st leaves the function on every path"""
            if st is None:
                return False
            k = st.get("k")
            if k == "Block":
                for x in st.get("s", []):
                    if visit(x):
                        return True
                return False
            if k == "If":
                v = val(st["c"])
                if v is not None:
                    decided["n"] += 1
                    return visit(st.get("then") if v else st.get("else"))
                visit(st["c"])
                t_, e_ = visit(st.get("then")), visit(st.get("else"))
                return bool(t_ and e_ and st.get("else") is not None)
            if k == "Switch":
                v = val(st["c"])
                if v is not None:
                    decided["n"] += 1
                    segs = switch_segments(st)
                    grp = next((ss for ls, ss in segs if v in ls), None)
                    if grp is None:
                        grp = next((ss for ls, ss in segs if "default" in ls), [])
                    for x in grp:
                        if visit(x):
                            return True
                    return False
            if k == "Cond":
                v = val(st["c"])
                if v is not None:
                    visit(st.get("then") if v else st.get("else"))
                    return False
            if k == "Assign" and this_field(st["lhs"]):
                r_ = strip(st["rhs"])
                if not (st.get("op") == "=" and ((r_.get("k") == "Int" and int(r_["v"]) == 0) or (r_.get("k") == "Bool" and not r_["v"]))):
                    out.add(this_field(st["lhs"]))      # `count = 0` cannot make a count non-zero
            if k == "Un" and st.get("op") in ("++", "--") and this_field(st.get("e")):
                out.add(this_field(st["e"]))
            if k == "MCall" and (st.get("obj") or {}).get("k") == "This":
                h = by_name.get(st.get("cfull")) or next((f for f in by_name.values() if f.qn == st.get("callee")), None)
                if h is None or depth >= 3:
                    raise Unknown("_compile: member helper `%s` not followed" % st.get("callee"))
                if h.full not in seen:
                    out.update(assigned(h, env, depth + 1, seen | {h.full}))
            for c in children(st):
                visit(c)
            return k == "Return" or (is_call(st) and bool(st.get("noreturn")))
        visit(fn.body)
        return out
    can = {}
    for name, v in enum.items():
        env = Env(fields={sfield: v})
        can[v] = assigned(comp, env, 0, {comp.full})
    if decided["n"] == 0:
        raise Unknown("_compile: no decision over the strategy member `%s` found" % sfield)
    return enum, can, comp


def variant_contexts(job, enum, can):
    """variant method name -> set of (id, num_workers, strategy value, site name) that can reach it"""
    out = {}
    problems = []
    for s in job.sites:
        nfield = this_field(s.arg.get("num_workers"))
        for (ident, nw) in s.contexts():
            if s.where == "assemble":
                strats = [v for v in enum.values() if nfield in can.get(v, can.get("default", set()))]
            else:
                strats = [v for k, v in enum.items() if k != "automatic"]
            for st in strats:
                tg = job.wm.dispatch(ident, nw, st)
                if len(tg) != 1:
                    problems.append("context (id=%d, num_workers=%d, strategy=%d) from %s dispatches to %s" % (ident, nw, st, s.where, sorted(tg)))
                for t in tg:
                    out.setdefault(t, set()).add((ident, nw, st, s.where))
    return out, problems


# -------------------------------------------------------------------------------------------------
# clause 6: dispatch contexts imply the targets' own assertions; clause 2: combine under the mutex
# -------------------------------------------------------------------------------------------------

def assertions_reached(wm, fn, env):
    """(assertion call, value or None) for the FEAT::assertion calls reachable in fn under env"""
    fx = wm.fx(fn)
    out = []
    seen = set()
    st = [fx.cfg.entry]
    while st:
        b = st.pop()
        if b in seen:
            continue
        seen.add(b)
        blk = fx.cfg.blocks[b]
        for e in blk["el"]:
            n = fn.by_id(e)
            if n is not None and n.get("k") == "Call" and n.get("callee") == "FEAT::assertion" and n.get("a"):
                try:
                    out.append((n, ev(fn, n["a"][0], env)))
                except Unknown:
                    out.append((n, None))
        st.extend(eval_succ(fx, blk, env))
    return out


def rule_dispatch(ck, job, vctx, inv_enum):
    R = "E13.dispatch-asserts"
    wm = job.wm
    for variant, ctxs in sorted(vctx.items()):
        fn = wm.methods[variant]
        res = {}
        for (ident, nw, st, where) in sorted(ctxs):
            for n, v in assertions_reached(wm, fn, wm.env(ident, nw, st)):
                text = render(n["a"][0])
                r = res.setdefault((where, text), {"line": n.get("l"), "bad": [], "n": 0, "undecided": 0})
                if v is None:
                    r["undecided"] += 1
                else:
                    r["n"] += 1
                    if not v:
                        r["bad"].append("Worker(id=%d, num_workers=%d) strategy=%s" % (ident, nw, inv_enum.get(st, st)))
        for (where, text), r in sorted(res.items()):
            if r["n"] == 0:
                ck.note("%s::%s: XASSERT(%s) depends on run-time layer data; not decided" % (job.name, variant, text))
                continue
            site_ = next((s_ for s_ in job.sites if s_.where == where), None)
            if r["bad"] and site_ is not None and site_.unevaluated:
                ck.incomplete(R, "%s/%s->%s: XASSERT(%s) fails for %s, but the guard(s) %s dominating the construction could not be evaluated and may exclude these contexts" % (
                    job.name, where, variant, text, r["bad"][0], site_.unevaluated))
                continue
            ck.ob(R, "%s/%s->%s/XASSERT(%s)" % (job.name, where, variant, text), not r["bad"],
                  "contexts constructed in %s() reach %s whose XASSERT(%s) fails for %s: the assembly aborts" % (where, variant, text, ", ".join(r["bad"][:4])) if r["bad"]
                  else "XASSERT(%s) of %s holds in all %d (id, num_workers, strategy) contexts that %s() can construct (ids/worker counts <= %d)" % (text, variant, r["n"], where, NMAX),
                  fn.file, r["line"])


def combine_sites(wm, fn, depth=0, chain=()):
    """task->combine() calls executed by fn, directly or inside member helpers called on `this`
    (bounded depth): [(function, call node, chain of (caller function, helper call node))]; raises
    Unknown for helpers that cannot be followed and perform task calls"""
    out = []
    for n in fn.nodes():
        if task_call(n, "combine"):
            out.append((fn, n, chain))
        elif n.get("k") == "MCall" and (n.get("obj") or {}).get("k") == "This" and n.get("n") != "operator()":
            h = find_method(fn.cls, n)
            if h is None or h.cfg is None:
                raise Unknown("member helper `%s` (line %s) is not in the fact base" % (n.get("callee"), n.get("l")))
            if not any(task_call(x, "combine") for x in h.nodes()) and not any(x.get("k") == "MCall" and (x.get("obj") or {}).get("k") == "This" for x in h.nodes()):
                continue
            if h.d.get("virtual") or depth >= 2 or any(c_[0].full == h.full for c_ in chain) or h.full == fn.full:
                if has_sync_events(h):
                    raise Unknown("member helper `%s` (line %s) is virtual, recursive or nested too deep" % (n.get("callee"), n.get("l")))
                continue
            out.extend(combine_sites(wm, h, depth + 1, chain + ((fn, n),)))
    return out


def rule_combine(ck, job, vctx):
    R = "E14.combine-locked"
    wm = job.wm
    mfield = wm.field_of.get("thread_mutex")
    mp = lambda e: this_field(e) == mfield
    for variant in sorted(vctx):
        fn = wm.methods[variant]
        try:
            calls = combine_sites(wm, fn)
        except Unknown as e:
            ck.incomplete(R, "%s::%s: %s" % (job.name, variant, e))
            continue
        maxn = max(c[1] for c in vctx[variant])
        if not calls:
            # no combine() in this instantiation of the variant
            key = "%s::%s/combine" % (job.name, variant)
            nc = wm.flag("need_combine")
            elsewhere = [f_.name for f_ in wm.methods.values() if f_.name not in vctx and any(task_call(x, "combine") for x in f_.nodes())]
            if nc == 0:
                ck.ob(R, key, True, "no task->combine() in this instantiation: Task::need_combine is false (the call is compiled out by `if constexpr`)", fn.file, fn.line)
            elif elsewhere or nc is None:
                ck.incomplete(R, "%s: the variant does not call combine(); %s" % (key, "combine() is called in %s, whose locking is not followed from here" % elsewhere if elsewhere else "need_combine is not known"))
            else:
                ck.ob(R, key, False, "Task::need_combine is true, but %s (nor a member helper it calls) never calls task->combine(): the per-thread results of this worker are dropped" % variant, fn.file, fn.line)
            continue
        for k, (cfn, c, chain) in enumerate(calls):
            # the lock may be held at the call itself (same function, helper included) or at the call
            # of the helper that contains it
            held = lock_held_at(wm.fx(cfn), c, mp)
            for hfn, hcall in chain:
                held = held or lock_held_at(wm.fx(hfn), hcall, mp)
            ok = held is not None or maxn <= 1
            key = "%s::%s/combine%s" % (job.name, variant, "" if len(calls) == 1 else "#%d" % k)
            where = "" if not chain else " (inside the helper %s called at line %s)" % (cfn.name, chain[0][1].get("l"))
            if not ok:
                um = None
                followed = [hc for _, hc in chain]
                for f_ in [cfn] + [hf for hf, _ in chain]:
                    um = um or unmodelled_locking(wm.fx(f_), mp, followed=followed)
                if um is None and any(s_.unevaluated for s_ in job.sites):
                    um = "the worker-count contexts are over-approximated (guards %s not evaluated)" % [u for s_ in job.sites for u in s_.unevaluated]
                if um is not None:
                    ck.incomplete(R, "%s: no modelled lock held at combine() (line %s), but %s" % (key, c.get("l"), um))
                    continue
            if held is not None:
                d = "task->combine()%s is called with a live lock on the shared %s" % (where, held)
            elif maxn <= 1:
                d = "task->combine() without lock: %s is only reachable with num_workers <= 1 (%d contexts)" % (variant, len(vctx[variant]))
            else:
                d = "task->combine() at line %s%s is called without a lock on this->%s being held, but %s runs with up to %d concurrent workers: two threads reduce into the job object at the same time" % (c.get("l"), where, mfield, variant, maxn)
            ck.ob(R, key, ok, d, cfn.file, c.get("l"))
    R = "E14.shared-mutex"
    for s in job.sites:
        a = strip(s.arg.get("thread_mutex") or {})
        f = this_field(a)
        ok = f is not None and "std::mutex" in s.fn.ntype(a) and "&" not in s.fn.ntype(a).replace("std::mutex &", "")
        if not ok and (is_call(a) or a.get("k") in ("Un", "Member", "Index") or (a.get("k") == "Ref" and a.get("dk") != "local")
                       or (a.get("k") == "Ref" and a.get("dk") == "local" and next((v for v in s.fn.nodes() if v.get("k") == "Var" and v.get("d") == a["d"]), {}).get("ref"))):
            ck.incomplete(R, "%s/%s: thread_mutex argument `%s` is not a plain mutex member; its identity across workers is not modelled" % (job.name, s.where, render(a)))
            continue
        ck.ob(R, "%s/%s/thread_mutex" % (job.name, s.where), ok,
              "Worker is constructed with the assembler's member mutex this->%s (one object shared by all workers)" % f if ok
              else "Worker in %s() receives `%s` as thread_mutex, not a mutex member of the assembler shared by all workers" % (s.where, render(a)),
              s.fn.file, s.node.get("l"))
    fs = {this_field(strip(s.arg.get("thread_mutex") or {})) for s in job.sites}
    if len(fs) > 1:
        ck.ob(R, "%s/one-mutex" % job.name, False, "construction sites pass different mutexes %s" % sorted(map(str, fs)), job.sites[0].fn.file, job.sites[0].node.get("l"))


# -------------------------------------------------------------------------------------------------
# fence event extraction (structured walk) and happens-before matching of the two roles
# -------------------------------------------------------------------------------------------------

CUR = {"facts": None}


def is_fence_type(t):
    return bool(re.match(r"^(const )?FEAT::ThreadFence( &)?$", t or ""))


def has_sync_events(fn, depth=0):
    """fn (transitively through member helpers) performs fence operations, joins or task calls"""
    for n in fn.nodes():
        if fence_call(n) or task_call(n) or (n.get("k") == "MCall" and n.get("callee") == "std::thread::join"):
            return True
        if n.get("k") == "MCall" and (n.get("obj") or {}).get("k") == "This" and depth < 3:
            h = find_method(fn.cls, n)
            if h is None or has_sync_events(h, depth + 1):
                return True
        if is_call(n) and not fence_call(n) and n.get("callee") != "std::thread::join" and not (n.get("ccls") or "").startswith("std::vector<") and \
                any("ThreadFence" in (fn.ntype(strip(a)) or "") or re.match(r"^(const )?std::thread( &)?$", fn.ntype(strip(a)) or "") for a in n.get("a", [])):
            return True
    return False


def find_method(cls, call):
    facts = CUR["facts"]
    if facts is None:
        return None
    c = [f for f in facts.functions if f.cls == cls and f.full == call.get("cfull")] or \
        [f for f in facts.functions if f.cls == cls and f.qn == call.get("callee")]
    return c[0] if len(c) == 1 else None


def is_int_type(t):
    t = (t or "").replace("const ", "").strip()
    return bool(re.match(r"^(FEAT::Index|std::size_t|size_t|unsigned long|unsigned int|unsigned|int|long|std::uint(32|64)_t|Index)$", t))


class Proto:
    """extracts the ordered fence events of a statement list of one role.

    Member helpers called on `this` are inlined (bounded depth, non-virtual, non-recursive) with their
    parameters bound to the caller's arguments: integer parameters to the sympy form of the argument,
    ThreadFence reference parameters to the caller's fence expression, any other parameter to the
    argument node (status flags handed to open()).  Events of an inlined helper carry
      inlined = True, via = the call statement in the outermost analysed function, must = the event is
      passed on every normally returning path through the helper(s) (paths ending in `return false`
      exempt), kloop = (fx, loop) of the counting loop whose variable the symbol k stands for.
    With `env` given, If / Switch statements whose condition the environment decides are replaced by
    the branch taken (switch, if-chain and named selector constants are the same decision table)."""

    def __init__(self, fx, fences_field, sym, own=None, k_sym=None, skip=(), env=None):
        self.fx = fx
        self.fn = fx.fn
        self.ff = fences_field
        self.sym = dict(sym)
        self.own = own
        self.k_sym = k_sym
        self.skip = set(skip)
        self.depth = 0
        self.env = env
        self.bind = {}            # parameter decl id -> (caller Proto, argument node, call node)
        self.kloop_in = None      # (fx, loop) standing behind k_sym in the caller at the call site
        self.decided = []         # conditions decided by env
        self.sym[("inits",)] = single_def_inits(fx.fn)

    # -- symbol tables / parameter binding ---------------------------------------------------------
    def site_sym(self, node):
        """(sym, kloop) at `node`: the innermost enclosing counting loop variable is the symbol k"""
        sym = dict(self.sym)
        kloop = self.kloop_in
        if self.k_sym is not None:
            loops = [lp for lp in self.fx.enclosing_loops(node) if loop_normal(self.fx, lp)]
            if loops:
                sym[("l", loop_normal(self.fx, loops[0])[0])] = self.k_sym
                kloop = (self.fx, loops[0])
        return sym, kloop

    def fence_class(self, expr, at):
        """(classification, kloop) of a fence expression evaluated at node `at`; reference parameters
        of an inlined helper are classified in the caller"""
        o = resolve_alias(self.fx, expr)
        if o is not None and o.get("k") == "Ref" and o.get("dk") == "param" and o.get("d") in self.bind:
            parent, arg, call = self.bind[o["d"]]
            return parent.fence_class(arg, call)
        sym, kloop = self.site_sym(at)
        return classify_fence(self.fx, o, self.ff, sym, own=self.own), kloop

    def bound_arg(self, n):
        """argument node a (by-value / reference) parameter stands for, through the inlining chain"""
        n = strip(n) if n is not None else None
        pr = self
        hops = 0
        while n is not None and n.get("k") == "Ref" and n.get("dk") == "param" and n.get("d") in pr.bind and hops < 4:
            pr, n, _ = pr.bind[n["d"]]
            n = strip(n)
            hops += 1
        return n

    def form(self, node, top):
        """normal form of an index expression occurring in this (possibly inlined) function; `top`
        computes the form of a node of the outermost analysed function; integer parameters of inlined
        helpers stand for the form of the caller's argument"""
        if self.depth == 0:
            return top(node)
        n_ = strip(node)
        if n_.get("k") == "Ref" and n_.get("dk") == "param" and n_.get("d") in self.bind:
            parent, arg, _ = self.bind[n_["d"]]
            return parent.form(arg, top)
        sym = dict(self.sym)
        for x in walk(node):
            if x.get("k") == "Ref" and x.get("dk") == "param" and x.get("d") in self.bind:
                parent, arg, _ = self.bind[x["d"]]
                sym[("l", x["d"])] = parent.form(arg, top)
        return sx(self.fn, node, sym)

    def helper_events(self, n, out):
        """member helper called on `this`: ignored when it performs no synchronisation, otherwise its
        event sequence is inlined with the parameters bound"""
        if n.get("n") in self.skip:
            return
        h = find_method(self.fn.cls, n)
        if h is None:
            raise Unknown("member helper `%s` (line %s) is not in the fact base" % (n.get("callee"), n.get("l")))
        if not has_sync_events(h):
            return
        if self.depth >= 2 or h.body is None or h.cfg is None:
            raise Unknown("member helper `%s` (line %s) performs fence/join/task operations at call depth > 2: not modelled" % (n.get("callee"), n.get("l")))
        if h.d.get("virtual"):
            raise Unknown("member helper `%s` (line %s) is virtual: the callee is not known statically" % (n.get("callee"), n.get("l")))
        if h.full == self.fn.full:
            raise Unknown("recursive helper `%s`" % n.get("callee"))
        args = n.get("a", [])
        if len(args) != len(h.params):
            raise Unknown("member helper `%s` (line %s): %d arguments for %d parameters" % (n.get("callee"), n.get("l"), len(args), len(h.params)))
        hfx = FX(h)
        sub = Proto(hfx, self.ff, {k_: v_ for k_, v_ in self.sym.items() if k_ and k_[0] in ("f", "v")}, own=self.own, k_sym=self.k_sym, skip=self.skip, env=None)
        sub.depth = self.depth + 1
        csym, ckloop = self.site_sym(n)
        sub.kloop_in = ckloop
        assigned = {strip(x["lhs"]).get("d") for x in h.nodes() if x.get("k") == "Assign" and strip(x["lhs"]).get("k") == "Ref"} | \
                   {strip(x["e"]).get("d") for x in h.nodes() if x.get("k") == "Un" and x.get("op") in ("++", "--") and strip(x["e"]).get("k") == "Ref"}
        for p_, a_ in zip(h.params, args):
            sub.bind[p_["d"]] = (self, a_, n)
            if is_int_type(h.type(p_["t"])) and p_["d"] not in assigned:
                try:
                    sub.sym[("l", p_["d"])] = sx(self.fn, a_, csym)
                except Unknown:
                    pass
        items = [i_ for i_ in sub.stmts(h.body.get("s", [])) if i_["k"] != "stop"]      # the helper's return is not the caller's
        nr = hfx.cfg.noreturn_blocks()
        fails = [x["i"] for x in h.nodes() if x.get("k") == "Return" and strip(x.get("e") or {}).get("k") == "Bool" and strip(x["e"])["v"] is False]
        for x in all_events(items):
            if x.get("node") is None:
                continue
            at = x["via"] if x.get("inlined") else x["node"]
            lps = hfx.enclosing_loops(at)
            hb_ = hfx.header_block(lps[-1]) if lps else None
            if lps and hb_ is None:
                must = False
            elif lps:
                must = hfx.reach((hfx.cfg.entry, 0), target_blocks=[hfx.cfg.exit], avoid_blocks=set([hb_]) | nr, avoid_stmts=fails) is None
            else:
                must = at.get("i") is not None and hfx.cfg.block_of(at["i"]) is not None and \
                    hfx.reach((hfx.cfg.entry, 0), target_blocks=[hfx.cfg.exit], avoid_blocks=nr, avoid_stmts=[at["i"]] + fails) is None
            x["must"] = bool(x.get("must", True) and must)
            x.setdefault("fx", hfx)
            x.setdefault("chain", []).insert(0, n)
            x["inlined"] = True
            x["via"] = n
        out.extend(items)

    def _only_exit(self, st):
        st_ = st
        while st_ is not None and st_.get("k") == "Block" and len(st_.get("s", [])) == 1:
            st_ = st_["s"][0]
        if st_ is not None and st_.get("k") in ("Return", "Break"):
            return st_
        return None

    def expr_events(self, e, out):
        for n in walk(e, prune=lambda x: x.get("k") == "Lambda"):
            if n.get("k") == "MCall" and (n.get("obj") or {}).get("k") == "This":
                self.helper_events(n, out)
                continue
            if n.get("k") == "Lambda" and any(fence_call(x) or task_call(x) for x in walk(n.get("body"))):
                raise Unknown("fence/task operations inside a lambda at line %s" % n.get("l"))
            if is_call(n) and not fence_call(n) and any(is_fence_type(self.fn.ntype(strip(a))) for a in n.get("a", [])):
                raise Unknown("a fence is passed to `%s` (line %s): not modelled" % (n.get("callee"), n.get("l")))
            if is_call(n) and not (n.get("ccls") or "").startswith("std::vector<") and not (n.get("ccls") or "").startswith("std::thread") and \
                    any("ThreadFence" in (self.fn.ntype(strip(a)) or "") or strip(a).get("k") == "This" for a in n.get("a", [])):
                # a callee that receives the fence vector (or the whole object) may open/close/wait
                raise Unknown("the fences (or `this`) are handed to `%s` (line %s): not modelled" % (n.get("callee"), n.get("l")))
            if fence_call(n):
                kind = n["callee"].rsplit("::", 1)[-1]
                f, kloop = self.fence_class(n.get("obj"), n)
                ev_ = {"k": kind, "f": f, "node": n, "l": n.get("l"), "fx": self.fx, "kloop": kloop, "proto": self}
                if kind == "open":
                    ev_["arg"] = self.bound_arg(n["a"][0]) if n.get("a") else None
                out.append(ev_)
            elif n.get("k") == "MCall" and n.get("callee") == "std::thread::join":
                out.append({"k": "join", "node": n, "l": n.get("l"), "fx": self.fx})
            elif task_call(n):
                out.append({"k": "task", "name": n["n"], "node": n, "l": n.get("l"), "fx": self.fx, "proto": self})

    def decide(self, c):
        """truth value of a condition under the partial-evaluation environment, or None"""
        if self.env is None:
            return None
        try:
            v = ev(self.fn, c, self.env)
        except Unknown:
            return None
        self.decided.append(c)
        return v

    def stmts(self, sts):
        """events of a statement list; a statement that leaves the list on every path (return, break,
        noreturn call - also as the decided branch of an if / switch) ends it with a `stop` item"""
        out = []
        for st in sts:
            items = self.stmt(st)
            out.extend(items)
            if items and items[-1]["k"] == "stop":
                break
        return out

    def stmt(self, st):
        if st is None:
            return []
        k = st.get("k")
        if k == "Block":
            return self.stmts(st.get("s", []))
        if k == "Try":
            return self.stmt(st.get("body")) if st.get("body") is not None else self.stmts([c for c in children(st)][:1])
        if k in ("For", "While", "Do", "ForRange"):
            hdr = []
            for key in ("init", "c", "inc", "range"):
                if st.get(key) is not None:
                    self.expr_events(st[key], hdr)
            if any(h["k"] != "task" for h in hdr):
                raise Unknown("fence event in a loop header at line %s" % st.get("l"))
            inner = [i for i in self.stmt(st.get("body")) if i["k"] != "stop"]
            if any(i["k"] == "task" for i in inner):
                return [{"k": "work", "loop": st, "inner": [i for i in inner if i["k"] != "task"], "tasks": [i for i in inner if i["k"] == "task"], "l": st.get("l"), "fx": self.fx}]
            if inner:
                return [{"k": "loop", "loop": st, "items": inner, "l": st.get("l")}]
            return []
        if k == "If":
            v = self.decide(st["c"])
            if v is not None:
                return self.stmt(st.get("then") if v else st.get("else"))
            ce = []
            self.expr_events(st["c"], ce)
            ex = self._only_exit(st.get("then"))
            if ex is not None and st.get("else") is None:
                # `if(!fence.wait()) return false;` / `if(!okay) break;`: the events of the condition,
                # then a conditional exit
                return ce + [{"k": "exit_if", "cond": st["c"], "exit": ex["k"], "l": st.get("l")}]
            th = self.stmt(st.get("then"))
            el = self.stmt(st.get("else"))
            both_stop = bool(th) and bool(el) and th[-1]["k"] == "stop" and el[-1]["k"] == "stop"
            t_exit = bool(th) and th[-1]["k"] == "stop"
            e_exit = bool(el) and el[-1]["k"] == "stop"
            th = [x for x in th if x["k"] != "stop"]
            el = [x for x in el if x["k"] != "stop"]
            tail = [{"k": "stop", "exit": "both branches", "l": st.get("l")}] if both_stop else []
            if not both_stop and ((t_exit and not th) or (e_exit and not el)):
                # one branch only (cleans up and) leaves: a conditional exit, then the other branch -
                # `if(!ok) return false; rest` == `if(ok) { rest } else return false;`
                return ce + [{"k": "exit_if", "cond": st["c"], "exit": "Return", "l": st.get("l")}] + (el if (t_exit and not th) else th)
            if all(x["k"] == "task" for x in th + el):
                return ce + th + el + tail
            return ce + [{"k": "if", "cond": st["c"], "then": th, "else": el, "l": st.get("l")}] + tail
        if k == "Switch":
            v = self.decide(st["c"])
            if v is not None:
                segs = switch_segments(st)
                grp = next((ss for ls, ss in segs if v in ls), None)
                if grp is None:
                    grp = next((ss for ls, ss in segs if "default" in ls), [])
                return self.stmts(grp)
            inner = []
            self.expr_events(st, inner)
            if inner:
                raise Unknown("fence events inside a switch at line %s whose selector `%s` is not decided by the strategy" % (st.get("l"), render(st["c"])))
            return []
        out = []
        self.expr_events(st, out)
        if k in ("Return", "Break", "Continue") or (is_call(st) and st.get("noreturn")):
            out.append({"k": "stop", "exit": k, "l": st.get("l")})
        return out


def cfg_stmt(fx, e):
    """the statement of fx's function that stands for event e in CFG path rules: the event's own node,
    or - for an event inlined from a member helper - the helper call, provided the event is passed on
    every normally returning path through the helper"""
    n = e.get("node")
    if n is not None and fx.owns(n):
        return n
    for c in e.get("chain", []):
        if fx.owns(c):
            if not e.get("must"):
                raise Unknown("%s at line %s is performed conditionally inside the member helper `%s`; path rules over the caller are not evaluated" % (
                    e.get("k") if e.get("k") != "task" else "task->%s()" % e.get("name"), e.get("l"), c.get("callee", "").rsplit("::", 1)[-1]))
            if c.get("i") is None or fx.cfg.block_of(c["i"]) is None:
                raise Unknown("helper call at line %s is not a CFG statement" % c.get("l"))
            return c
    raise Unknown("event at line %s does not belong to the analysed function" % e.get("l"))


def flatten_round(items):
    """linear event list of one round: `loop` items (for-all-workers loops) are inlined with
    forall=True; conditional fence events make the round unanalysable"""
    out = []
    for it in items:
        if it["k"] == "loop":
            for x in it["items"]:
                if x["k"] in ("loop", "if", "work"):
                    raise Unknown("nested control flow around fence events at line %s" % x.get("l"))
                y = dict(x)
                y["forall"] = it["loop"]
                out.append(y)
        elif it["k"] == "if":
            sub = it["then"] + it["else"]
            if all(x["k"] == "work" and not x["inner"] for x in sub):
                # a conditionally skipped element loop (e.g. empty range) exchanges no fence events
                for x in sub:
                    out.append({"k": "work", "l": x.get("l"), "inner": [], "loop": x.get("loop"), "fx": x.get("fx")})
            elif sub:
                raise Unknown("conditional fence events at line %s" % it.get("l"))
        elif it["k"] == "work":
            out.append({"k": "work", "l": it.get("l"), "inner": it["inner"], "loop": it.get("loop"), "fx": it.get("fx")})
        else:
            out.append(it)
    return out


def round_skips(fx, round_loop, seq, role):
    """events of the round that some path from the start of one iteration of the round loop back to
    the loop header (= into the next round) does not pass; paths ending in `return false` / noreturn
    are failure exits and exempt.  For-all-workers events count as passed when their loop is."""
    H = fx.header_block(round_loop)
    if H is None:
        raise Unknown("header of the round loop not found")
    body_entry = fx.cfg.blocks[H]["succ"][0]
    fails = [n["i"] for n in fx.fn.nodes() if n.get("k") == "Return" and strip(n.get("e") or {}).get("k") == "Bool" and strip(n["e"])["v"] is False]
    nr = fx.cfg.noreturn_blocks()
    out = []
    if not fx.owns(round_loop):
        raise Unknown("the round loop at line %s lives in a helper; per-iteration must-pass not evaluated" % round_loop.get("l"))
    for e in seq:
        if e["k"] not in ("wait", "open", "close"):
            continue
        if e.get("forall") is not None and fx.owns(e["forall"]):
            if not fx.owns(e["node"]):
                cfg_stmt(fx, e)         # an inlined event must be unconditional inside its helper
            hb_ = fx.header_block(e["forall"])
            if hb_ is None:
                raise Unknown("for-all loop header not found")
            r = fx.reach((body_entry, 0), target_blocks=[H], avoid_blocks=set([hb_]) | nr, avoid_stmts=fails)
        else:
            r = fx.reach((body_entry, 0), target_blocks=[H], avoid_blocks=nr, avoid_stmts=[cfg_stmt(fx, e)["i"]] + fails)
        if r is not None:
            out.append("the %s can start the next round without having passed %s(%s) at line %s" % (role, e["k"], e["f"] if isinstance(e["f"], str) else e["f"][1], e["l"]))
    return out


def hb_check(master, worker, rounds):
    """master/worker: flat event lists of one round (worker: one generic worker).  Unrolls `rounds`
    rounds, pairs the k-th wait(f) of a role with the k-th open(f) of the other role in the same
    round, builds the happens-before graph (program order + open->wait) and returns a list of
    protocol violations: unmatched wait, wait-for cycle, open erased by a close before the waiter
    passed, stale open of an earlier phase still visible at a wait, colour rounds not separated."""
    G = nx.DiGraph()
    evs = []
    for role, seq in (("master", master), ("worker", worker)):
        prev = None
        for r in range(rounds):
            for k, e in enumerate(seq):
                if e["k"] not in ("wait", "open", "close", "work"):
                    continue
                if e["k"] != "work" and e["f"] == "NEXT":
                    continue
                node = (role, r, k)
                G.add_node(node)
                evs.append((node, e))
                if prev is not None:
                    G.add_edge(prev, node)
                prev = node
    E = dict(evs)
    viol = []

    def of(role, r, kind, f):
        return [nd for nd, e in evs if nd[0] == role and nd[1] == r and e["k"] == kind and e.get("f") == f]
    pairs = []
    for role, other in (("master", "worker"), ("worker", "master")):
        fences = []
        for nd, e in evs:
            if nd[0] == role and e["k"] == "wait" and e["f"] not in fences:
                fences.append(e["f"])
        for f in fences:
            for r in range(rounds):
                ws = of(role, r, "wait", f)
                os_ = of(other, r, "open", f) + ([] if f != "ALL" else [])
                for i, w in enumerate(ws):
                    if i < len(os_):
                        pairs.append((os_[i], w, f))
                        G.add_edge(os_[i], w)
                    elif r == 0:
                        viol.append("the %s's wait() on fence %s (line %s) has no matching open() by the %s in the same round: the %s blocks forever" % (role, f, E[w]["l"], other, role))
    if viol:
        return viol
    if not nx.is_directed_acyclic_graph(G):
        cyc = nx.find_cycle(G)
        return ["wait-for cycle between master and worker: " + " -> ".join("%s:%s(%s)@%s" % (a[0], E[a]["k"], E[a].get("f", ""), E[a]["l"]) for a, b in cyc)]
    TC = nx.transitive_closure_dag(G)
    hb = lambda a, b: TC.has_edge(a, b)
    seen = set()
    for o, w, f in pairs:
        for nd, e in evs:
            if e.get("f") not in (f, "ALL"):
                continue
            if e["k"] == "close" and not hb(nd, o) and not hb(w, nd):
                msg = "close() of fence %s by the %s (line %s) is not ordered after the %s's wait() (line %s) that the open() at line %s releases: the open can be erased before the waiter saw it (deadlock)" % (
                    f, nd[0], e["l"], w[0], E[w]["l"], E[o]["l"])
                if msg not in seen:
                    seen.add(msg)
                    viol.append(msg)
            if e["k"] == "open" and nd != o and nd[0] == o[0] and not hb(w, nd) and e.get("f") == f:
                # an earlier open of the same fence: must be closed again before this wait
                if not hb(nd, o):
                    continue
                # the close must be ordered before the wait independently of the open this wait is
                # meant for (otherwise the waiter can run ahead on the stale open)
                Gp = G.copy()
                Gp.remove_edge(o, w)
                closed = any(e2["k"] == "close" and e2.get("f") in (f, "ALL") and hb(nd, n2) and nx.has_path(Gp, n2, w) for n2, e2 in evs)
                if not closed:
                    msg = "wait() of the %s on fence %s (line %s) can be satisfied by the stale open() at line %s of an earlier phase: no close() of the fence is ordered between them (the waiter runs ahead: race / later deadlock)" % (
                        w[0], f, E[w]["l"], e["l"])
                    if msg not in seen:
                        seen.add(msg)
                        viol.append(msg)
    if rounds > 1:
        H = G.copy()
        wk = [nd for nd, e in evs if nd[0] == "worker"]
        for a, b in list(H.edges()):
            if a[0] == "worker" and b[0] == "worker" and a[1] != b[1]:
                H.remove_edge(a, b)
        w0 = [nd for nd, e in evs if nd[0] == "worker" and nd[1] == 0 and e["k"] == "work"]
        w1 = [nd for nd, e in evs if nd[0] == "worker" and nd[1] == 1 and e["k"] == "work"]
        for a in w0:
            for b in w1:
                if not nx.has_path(H, a, b):
                    viol.append("the scatter loop of colour round r (line %s) is not ordered through the master before the scatter loop of round r+1 of another worker: two colours can be scattered concurrently" % E[a]["l"])
    return viol


def cond_form(fn, c, sym):
    """normal form of a strict loop bound `a < b` / `b > a`: sympy expression b - a"""
    c = strip(c)
    if c.get("k") != "Bin" or c["op"] not in ("<", ">", "<=", ">="):
        raise Unknown("loop condition " + render(c))
    a, b = sx(fn, c["lhs"], sym), sx(fn, c["rhs"], sym)
    d = (b - a) if c["op"] in ("<", "<=") else (a - b)
    if c["op"] in ("<=", ">="):
        d = d + 1
    return sympy.simplify(d)


K = sympy.Symbol("k", integer=True, nonnegative=True)
ID = sympy.Symbol("id", integer=True, nonnegative=True)
NW = sympy.Symbol("n", integer=True, positive=True)


def worker_sym(job, site):
    """sympy naming of the Worker's fields by their meaning at the construction site: id, n, and the
    assembler's vector names for the vectors passed by reference"""
    wm = job.wm
    sym = {("f", wm.field_of.get("id")): ID, ("f", wm.field_of.get("num_workers")): NW}
    for fld, role in wm.role.items():
        a = site.arg.get(role)
        af = this_field(a) if a is not None else None
        if af is not None and "vector" in site.fn.ntype(strip(a)):
            sym[("v", fld)] = af
    return sym


def continuation(fx, stmt):
    """statements executed after `stmt` up to the end of the function: the rest of its block, then the
    rest of the enclosing blocks (the construction may sit in the else-branch of an early-out test)"""
    out = []
    child = stmt
    for p in fx.ancestors(stmt):
        k = p.get("k")
        if k == "Block":
            ss = p.get("s", [])
            idx = next((i for i, x in enumerate(ss) if x is child), None)
            if idx is None:
                raise Unknown("statement order around line %s not recovered" % stmt.get("l"))
            out.extend(ss[idx + 1:])
        elif k in ("For", "While", "Do", "ForRange", "Switch", "Lambda"):
            raise Unknown("the worker threads are created inside a %s statement (line %s)" % (k, p.get("l")))
        elif k not in ("If", "Try", "Case", "Default"):
            raise Unknown("the worker threads are created inside a %s node (line %s)" % (k, p.get("l")))
        child = p
    return out


def rule_protocol(ck, job, vctx, enum, can, inv_enum):
    R = "E14.protocol"
    wm = job.wm
    fxa = job.assemble
    site = next((s for s in job.sites if s.where == "assemble"), None)
    if fxa is None or site is None:
        ck.incomplete(R, "%s: assemble() with a Worker construction not found" % job.name)
        return
    ffield = this_field(site.arg.get("thread_fences"))
    nfield = this_field(site.arg.get("num_workers"))
    sfield = this_field(site.arg.get("strategy"))
    if sfield is None:
        ck.incomplete(R, "%s: assemble() hands `%s` to the workers as their strategy, not a member of the assembler" % (job.name, render(site.arg.get("strategy"))))
        return
    # the id argument as a function of the creation loop variable, and the creation loop range
    cl = [lp for lp in fxa.enclosing_loops(site.node) if loop_normal(fxa, lp)]
    if not cl:
        ck.incomplete(R, "%s: Worker construction in assemble() is not inside a counting loop" % job.name)
        return
    cd, cinit, ccond, cstep = loop_normal(fxa, cl[0])
    try:
        id_form = sx(fxa.fn, site.arg["id"], {("l", cd): K})
        create_range = (sx(fxa.fn, cinit, {}), cond_form(fxa.fn, ccond, {("l", cd): K}), cstep)
    except Unknown as e:
        ck.incomplete(R, "%s: creation loop not in normal form (%s)" % (job.name, e))
        return
    thr_vec = None
    for n in walk(cl[0].get("body")):
        if n.get("k") == "MCall" and n.get("n") in ("emplace_back", "push_back") and "std::thread" in fxa.fn.ntype(strip(n.get("obj") or {})):
            thr_vec = this_field(n.get("obj"))
    size_thr = sympy.Symbol("size_%s" % thr_vec, integer=True, nonnegative=True)
    nsym = sympy.Symbol(nfield, integer=True, nonnegative=True)

    def forall_ok(fx_, loop, idx):
        """the loop's fence indices idx(k) are exactly the ids handed to the workers, for 2..NMAX workers"""
        ln = loop_normal(fx_, loop)
        if not ln:
            raise Unknown("loop over the worker fences at line %s is not a counting loop" % loop.get("l"))
        for n_ in range(2, NMAX + 1):
            sub = {size_thr: n_, nsym: n_}
            mine = sorted(int(idx.subs(K, k_).subs(sub)) for k_ in loop_values(fx_.fn, ln[1], ln[2], ln[3], {}, ln[0], sub))
            ids = sorted(int(id_form.subs(K, k_).subs(sub)) for k_ in loop_values(fxa.fn, cinit, ccond, cstep, {}, cd, sub))
            if mine != ids:
                return False
        return True

    wsym = worker_sym(job, site)
    try:
        mstmts = continuation(fxa, cl[0])
    except Unknown as e:
        ck.incomplete(R, "%s: %s" % (job.name, e))
        return
    strategies = sorted(v for v in enum.values() if nfield in can.get(v, can.get("default", set())))
    for st in strategies:
        sname = inv_enum.get(st, str(st))
        variants = sorted({v for v, cs in vctx.items() for c in cs if c[2] == st and c[3] == "assemble"})
        for variant in variants:
            key = "strategy=%s/need_scatter=%s/%s" % (sname, wm.flag("need_scatter"), variant)
            loc = (fxa.fn.file, mstmts[0].get("l") if mstmts else fxa.fn.line)
            try:
                # the master's part after the creation of the threads, specialised for the strategy:
                # switch groups / if-chain branches / selector constants decided by the strategy value
                # are replaced by the branch taken
                env_m = Env(fields={sfield: st}, consts=wm.consts)
                env_m.inits = single_def_inits(fxa.fn)
                mp = Proto(fxa, ffield, {}, own=None, k_sym=K, env=env_m)
                mitems = mp.stmts(mstmts)
                first = next((x for x in all_events(mitems) if x.get("l") is not None), None)
                if first is not None:
                    loc = (fxa.fn.file, first.get("l"))
                # master fences indexed like the worker ids are the workers' own fences
                def relabel(items):
                    for it in items:
                        if it["k"] in ("loop",):
                            relabel(it["items"])
                        elif it["k"] in ("wait", "open", "close") and isinstance(it["f"], tuple):
                            kl = it.get("kloop")
                            if kl is not None and it["f"][2].has(K) and forall_ok(kl[0], kl[1], it["f"][2]):
                                it["f"] = "OWN"
                relabel(mitems)
                wfn = wm.methods[variant]
                wfx = wm.fx(wfn)
                wp = Proto(wfx, wm.field_of.get("thread_fences"), wsym, own=ID)
                witems = wp.stmts(wfn.body.get("s", []))
                is_round = lambda it: it["k"] == "loop" and any(x["k"] == "loop" or x.get("f") in ("START", "END") for x in it["items"])
                mround = [it for it in mitems if is_round(it)]
                wround = [it for it in witems if it["k"] == "loop" and any(x["k"] in ("wait", "open", "close", "work") for x in it["items"])]
                viol = []
                if mround:
                    if len(mround) != 1:
                        raise Unknown("several round loops in the master")
                    m_seq = flatten_round(mround[0]["items"])
                    if len(wround) == 1:
                        w_seq = flatten_round(wround[0]["items"])
                        # same number of rounds on both sides
                        lm, lw = loop_normal(fxa, mround[0]["loop"]), loop_normal(wfx, wround[0]["loop"])
                        if not lm or not lw:
                            raise Unknown("round loops are not counting loops")
                        sizes_ = set()
                        for fn_, l_, sy_ in ((fxa.fn, lm, {}), (wfn, lw, wsym)):
                            sizes_ |= {x for x in (sx(fn_, l_[1], sy_).free_symbols | cond_form(fn_, l_[2], {**sy_, ("l", l_[0]): K}).free_symbols) if x != K}
                        if len(sizes_) > 1:
                            raise Unknown("round loops depend on several quantities %s" % sorted(map(str, sizes_)))
                        for size in range(0, 7):
                            sub = {x: size for x in sizes_}
                            cm = len(loop_values(fxa.fn, lm[1], lm[2], lm[3], {}, lm[0], sub))
                            cw_ = len(loop_values(wfn, lw[1], lw[2], lw[3], wsym, lw[0], sub))
                            if cm != cw_:
                                viol.append("for %s = %d the master runs %d rounds but the worker runs %d: after the shorter loop ends the other side waits forever" % (sorted(map(str, sizes_)), size, cm, cw_))
                                break
                    elif not wround:
                        w_seq = flatten_round(witems)
                    else:
                        raise Unknown("several round loops in %s" % variant)
                    rounds = 2
                    # every iteration of a round loop performs the whole fence sequence of the round
                    sk = round_skips(fxa, mround[0]["loop"], m_seq, "master")
                    if len(wround) == 1:
                        sk += round_skips(wfx, wround[0]["loop"], w_seq, "worker")
                    if sk:
                        viol.append("; ".join(sk[:3]) + ": the two roles get out of step by one round (a worker runs a colour ahead while other workers still scatter the previous colour, and later blocks on a fence the master has already consumed)")
                else:
                    m_seq = flatten_round(mitems)
                    if wround:
                        viol.append("%s synchronises in rounds but the master's branch for strategy %s has no round loop" % (variant, sname))
                        w_seq = flatten_round(wround[0]["items"])
                    else:
                        w_seq = flatten_round(witems)
                    rounds = 1
                for e_ in m_seq + w_seq:
                    if e_["k"] in ("wait", "open", "close") and isinstance(e_["f"], tuple):
                        viol.append("%s() on fence index %s (line %s) addresses neither the start/end fence nor exactly the workers' own fences (worker ids are %s for k in the creation loop): a fence is waited on that nobody opens, or a worker is left out" % (e_["k"], e_["f"][1], e_["l"], id_form))
                if not viol:
                    viol = hb_check(m_seq, w_seq, rounds)
                # the master must join after its protocol part
                ck.ob(R, key, not viol,
                      ("job %s: " % job.job) + ("; ".join(viol) if viol else "master branch (%d events/round) and %s (%d events/round) match: every wait has an open in the other role, the happens-before graph of %d round(s) is acyclic, no open is erased or stale, rounds are separated through the master" % (
                          len([e_ for e_ in m_seq if e_["k"] in ("wait", "open", "close")]), variant, len([e_ for e_ in w_seq if e_["k"] in ("wait", "open", "close")]), rounds)),
                      loc[0], loc[1], sample={"master": ["%s(%s)" % (e_["k"], e_.get("f", "")) for e_ in m_seq], "worker": ["%s(%s)" % (e_["k"], e_.get("f", "")) for e_ in w_seq]})
            except Unknown as e:
                ck.incomplete(R, "%s %s: %s" % (job.name, key, e))


# -------------------------------------------------------------------------------------------------
# clause 3: layered neighbour handshake (CFG path rules), wait results, failure notification
# -------------------------------------------------------------------------------------------------

def all_events(items):
    for it in items:
        yield it
        for key in ("items", "inner", "then", "else"):
            if it.get(key):
                yield from all_events(it[key])


def work_loop(fx):
    loops = [n for n in fx.fn.nodes() if n.get("k") in ("For", "While") and any(task_call(x, "prepare") for x in walk(n.get("body")))]
    inner = [l for l in loops if not any(l2 is not l and any(x is l2 for x in walk(l.get("body"))) for l2 in loops)]
    return inner[0] if len(inner) == 1 else None


def eq_tests(fx, loop_var):
    """[(block, other local decl id, successor taken when elem == X, successor taken otherwise)] for
    branch conditions `elem == X`, `X == elem`, `elem != X` (edges swapped), `!(...)` (edges swapped),
    also through a const bool local holding the comparison"""
    out = []
    inits = single_def_inits(fx.fn)
    for b in fx.cfg.blocks.values():
        if b.get("cond") is None or len(b.get("succ", [])) != 2:
            continue
        c = strip(fx.fn.by_id(b["cond"]) or {})
        flip = False
        hops = 0
        while hops < 6:
            hops += 1
            if c.get("k") == "Ref" and c.get("dk") == "local" and c.get("d") in inits:
                c = strip(inits[c["d"]])
            elif c.get("k") == "Un" and c.get("op") == "!":
                c, flip = strip(c["e"]), not flip
            else:
                break
        if c.get("k") == "Bin" and c.get("op") in ("==", "!="):
            if c["op"] == "!=":
                flip = not flip
            l, r = strip(c["lhs"]), strip(c["rhs"])
            for a, o in ((l, r), (r, l)):
                if a.get("k") == "Ref" and a.get("d") == loop_var and o.get("k") == "Ref" and o.get("dk") == "local":
                    out.append((b["id"], o["d"], b["succ"][1 if flip else 0], b["succ"][0 if flip else 1]))
    return out


def controlling_test(fx, tests, node, header):
    """the `elem == X` test whose true edge is the only way to reach node within one iteration"""
    pos = fx.pos(node)
    tgt = [node["i"]]
    for (tb, d, ts, fs) in tests:
        if tb not in fx.cfg.dom.get(pos[0], ()):
            continue
        via_t = ts is not None and fx.reach((ts, 0), target_stmts=tgt, avoid_blocks=[tb, header]) is not None
        via_f = fs is not None and fx.reach((fs, 0), target_stmts=tgt, avoid_blocks=[tb, header]) is not None
        if via_t and not via_f:
            return (tb, d, ts, fs)
    return None


def local_defs(fx, d, before=None):
    """definitions of local d in source order: [(rhs node, guards, node)]"""
    out = []
    for n in fx.fn.nodes():
        if n.get("k") == "Var" and n.get("d") == d:
            out.append((n.get("init"), fx.guards(n), n))
        elif n.get("k") == "Assign" and strip(n["lhs"]).get("k") == "Ref" and strip(n["lhs"]).get("d") == d:
            if n.get("op") != "=":
                raise Unknown("compound assignment to a range variable at line %s" % n.get("l"))
            out.append((n["rhs"], fx.guards(n), n))
        elif n.get("k") == "Un" and n.get("op") in ("++", "--") and strip(n["e"]).get("d") == d:
            raise Unknown("increment of a range variable at line %s" % n.get("l"))
    return out


def form_in_context(wm, fx, d, ctx, sym, scope_loop, cache=None):
    """symbolic value of local d at the work loop for the worker context ctx=(id, n, strategy): the
    last definition (source order, at the nesting level of the element loop) whose If-guards hold in
    the context; locals it mentions are expanded the same way, ?: is resolved with the context"""
    cache = {} if cache is None else cache
    if (d, ctx) in cache:
        return cache[(d, ctx)]
    env = wm.env(ctx[0], ctx[1], ctx[2])
    env.inits = single_def_inits(fx.fn)
    val = None
    for rhs, guards, node in local_defs(fx, d):
        lps = fx.enclosing_loops(node)
        if (lps[0] if lps else None) is not scope_loop:
            raise Unknown("definition of a range variable at line %s is not at the nesting level of the element loop" % node.get("l"))
        if all(bool(ev(fx.fn, c, env)) == pol for c, pol in guards):
            val = rhs
    if val is None:
        raise Unknown("no reaching definition")
    r = node_form(wm, fx, val, ctx, sym, scope_loop, cache)
    cache[(d, ctx)] = r
    return r


def node_form(wm, fx, node, ctx, sym, scope_loop, cache=None):
    cache = {} if cache is None else cache
    env = wm.env(ctx[0], ctx[1], ctx[2])
    env.inits = single_def_inits(fx.fn)
    s2 = dict(sym)
    s2[("env",)] = env
    s2[("inits",)] = env.inits
    for x in walk(node):
        if x.get("k") == "Ref" and x.get("dk") == "local" and ("l", x["d"]) not in s2 and "vector" not in fx.fn.ntype(x):
            s2[("l", x["d"])] = form_in_context(wm, fx, x["d"], ctx, sym, scope_loop, cache)
    return sx(fx.fn, node, s2)


def event_disabled(wm, fx, node, ctx, loop):
    """some If-guard (conjunct) of node inside the element loop evaluates to the wrong polarity in ctx"""
    env = wm.env(ctx[0], ctx[1], ctx[2])
    env.inits = single_def_inits(fx.fn)

    def conj(c, pol):
        c = strip(c)
        if pol and c.get("k") == "Bin" and c.get("op") == "&&":
            return conj(c["lhs"], True) + conj(c["rhs"], True)
        if not pol and c.get("k") == "Bin" and c.get("op") == "||":
            return conj(c["lhs"], False) + conj(c["rhs"], False)
        return [(c, pol)]
    for c, pol in fx.guards(node, stop=loop):
        for c2, p2 in conj(c, pol):
            try:
                if bool(ev(fx.fn, c2, env)) != p2:
                    return True
            except Unknown:
                pass
    return False


def rule_layered(ck, job, vctx, enum, inv_enum):
    wm = job.wm
    site = next((s for s in job.sites if s.where == "assemble"), None)
    wsym = worker_sym(job, site)
    colored = enum.get("colored")
    lay_variants = sorted({v for v, cs in vctx.items() for c in cs if c[3] == "assemble" and c[2] != colored and c[1] > 1})
    if not wm.flag("need_scatter"):
        return
    for variant in lay_variants:
        fn = wm.methods[variant]
        fx = wm.fx(fn)
        name = "%s::%s" % (job.name, variant)
        try:
            P = Proto(fx, wm.field_of.get("thread_fences"), wsym, own=ID)
            items = P.stmts(fn.body.get("s", []))
            works = [i for i in items if i["k"] == "work"]
            if len(works) != 1 or not fx.owns(works[0]["loop"]):
                raise Unknown("element loop not identified")
            loop = work_loop(fx) or works[0]["loop"]
            if loop is not works[0]["loop"]:
                raise Unknown("element loop not identified")
            ln = loop_normal(fx, loop)
            if ln is None:
                raise Unknown("element loop is not a counting loop")
            H = fx.header_block(loop)
            body_entry = fx.cfg.blocks[H]["succ"][0]
            inner = list(all_events(works[0]["inner"])) + list(works[0]["tasks"])
            waits = [e for e in inner if e["k"] == "wait" and e["f"] == "NEXT"]
            opens = [e for e in inner if e["k"] == "open" and e["f"] == "OWN"]
            scat_ev = [e for e in inner if e["k"] == "task" and e["name"] == "scatter"]
            other = [e for e in inner if e["k"] in ("wait", "open", "close") and e not in waits and e not in opens]
            R = "E7.layered-wait-before-scatter"
            if not waits or not opens or not scat_ev:
                ck.ob(R, name + "/handshake", False,
                      "the worker variant used for the layered strategies with a scattering task has %d wait(next fence), %d open(own fence), %d scatter() in its element loop: adjacent layers of neighbouring threads are not serialised" % (len(waits), len(opens), len(scat_ev)),
                      fn.file, loop.get("l"))
                continue
            if other:
                raise Unknown("unexpected fence events in the element loop: %s" % [(e["k"], e["f"], e["l"]) for e in other])
            # CFG statements standing for the events (the helper call for an event inlined from a helper)
            wst = [cfg_stmt(fx, e) for e in waits]
            ost = [cfg_stmt(fx, e) for e in opens]
            scat = [cfg_stmt(fx, e) for e in scat_ev]
            ids_ = [{x["i"] for x in g} for g in (wst, ost, scat)]
            if (ids_[0] & ids_[1]) or (ids_[0] & ids_[2]) or (ids_[1] & ids_[2]):
                raise Unknown("wait / scatter / open of the handshake are performed inside one member helper; their order is not followed")
            tests = eq_tests(fx, ln[0])
            S = [n["i"] for n in scat]
            W = [n["i"] for n in wst]
            O = [n["i"] for n in ost]
            tw = [controlling_test(fx, tests, n, H) for n in wst]
            to = [controlling_test(fx, tests, n, H) for n in ost]
            if any(t is None for t in tw + to):
                raise Unknown("a fence event of the element loop is not controlled by a single `element == position` test")
            dw = {t[1] for t in tw}
            do = {t[1] for t in to}
            if len(dw) != 1 or len(do) != 1:
                raise Unknown("several position variables")
            dw, do = dw.pop(), do.pop()
            # 3a: in the iteration of the wait position, the wait precedes scatter
            cut = [(t[0], t[3]) for t in tests if t[1] == dw]
            esc = fx.reach((body_entry, 0), target_stmts=S, avoid_stmts=W, avoid_blocks=[H], cut_edges=cut)
            ck.ob(R, name + "/wait(next)->scatter", esc is None,
                  "every path of one loop iteration to task->scatter() either took the false edge of `element == wait position` or passed wait() on fence id+1" if esc is None
                  else "task->scatter() (line %s) is reachable in the iteration `element == wait position` without first passing the wait on the next thread's fence: the thread scatters into its last layer while thread id+1 may still scatter into the adjacent first layer" % fn.by_id(esc[1]).get("l"),
                  fn.file, waits[0]["l"])
            # 3b: own fence opened only after scatter of the open position, and always
            R = "E7.layered-open-after-scatter"
            e1 = fx.reach((body_entry, 0), target_stmts=O, avoid_stmts=S, avoid_blocks=[H])
            cut_t = [(t[0], t[2]) for t in tests if t[1] == do]
            e2 = fx.reach((body_entry, 0), target_stmts=O, avoid_blocks=[H], cut_edges=cut_t)
            fails = [n["i"] for n in fn.nodes() if n.get("k") == "Return" and strip(n.get("e") or {}).get("k") == "Bool" and strip(n["e"])["v"] is False]
            e3 = None
            for t in tests:
                if t[1] == do and t[2] is not None:
                    e3 = e3 or fx.reach((t[2], 0), target_blocks=[H, fx.cfg.exit], avoid_stmts=O + fails, avoid_blocks=fx.cfg.noreturn_blocks())
            arg_true = all(strip(e["arg"] or {}).get("k") == "Bool" and strip(e["arg"])["v"] is True for e in opens)
            ok = e1 is None and e2 is None and e3 is None and arg_true
            why = []
            if e1 is not None:
                why.append("open() of the own fence (line %s) is reachable in an iteration before task->scatter(): the previous thread enters its last layer while this thread still scatters into the adjacent first layer" % opens[0]["l"])
            if e2 is not None:
                why.append("open() of the own fence is reachable without `element == open position` being true: the fence opens before the first layer is finished")
            if e3 is not None:
                why.append("in the iteration `element == open position` a path continues without opening the own fence: thread id-1 waits forever")
            if not arg_true:
                why.append("the own fence is opened with a non-true status on the success path: thread id-1 gives up")
            ck.ob(R, name + "/scatter->open(own)", ok,
                  "; ".join(why) if why else "open(true) of fence id is only reachable after scatter() in the iteration `element == open position`, and on every continuing path of that iteration",
                  fn.file, opens[0]["l"])
            # positions and range as normal forms
            R = "E5.layered-positions"
            c = strip(ln[2])
            if c.get("k") != "Bin" or c["op"] != "<" or strip(c["lhs"]).get("d") != ln[0] or strip(c["rhs"]).get("k") != "Ref" or ln[3] != 1:
                raise Unknown("element loop bound is not `element < end`")
            d_end = strip(c["rhs"])["d"]
            ini = strip(ln[1])
            if ini.get("k") != "Ref":
                raise Unknown("element loop does not start at a range variable")
            d_beg = ini["d"]
            scope = (fx.enclosing_loops(loop) or [None])[0]
            Fn_ = this_field(site.arg.get("layer_elements"))
            Gn_ = this_field(site.arg.get("thread_layers"))
            En_ = this_field(site.arg.get("element_indices"))
            if None in (Fn_, Gn_, En_):
                raise Unknown("layer/thread-layer vectors are not passed as assembler members")
            F, G = VF(Fn_), VF(Gn_)
            ctxs = sorted({(c_[0], c_[1], c_[2]) for c_ in vctx[variant] if c_[3] == "assemble" and c_[2] != colored})
            res = {"range-begin": [], "range-end": [], "wait-position": [], "open-position": []}
            for ctx in ctxs:
                ident, nw = ctx[0], ctx[1]
                exp = {"range-begin": [F(G(ID - 1))], "range-end": [F(G(ID))],
                       "wait-position": [F(G(ID) - 1)] if ident < nw else [SENTINEL],
                       "open-position": [F(G(ID - 1) + 1) - 1] if ident >= 2 else [SENTINEL, F(G(ID - 1) + 1) - 1]}
                for what, d in (("range-begin", d_beg), ("range-end", d_end), ("wait-position", dw), ("open-position", do)):
                    got = form_in_context(wm, fx, d, ctx, wsym, scope)
                    if exp[what][0] is SENTINEL and got != SENTINEL:
                        # a position is set although this thread must not wait/open: fine if the event is switched off otherwise
                        evs_ = waits if what == "wait-position" else opens
                        if all(event_disabled(wm, fx, cfg_stmt(fx, e_), ctx, loop) for e_ in evs_):
                            continue
                    rs = [refute_zero(got - e_) for e_ in exp[what]]
                    if any(r_ is None for r_ in rs):
                        continue
                    if any(r_ == "unknown" for r_ in rs):
                        raise Unknown("%s for id=%d of %d workers: cannot decide whether %s equals %s" % (what, ident, nw, got, exp[what][0]))
                    res[what].append("id=%d of %d workers: %s, expected %s" % (ident, nw, got, exp[what][0]))
            doc = {"range-begin": "first element = first element of the thread's first layer", "range-end": "end = first element of the next thread's first layer (consecutive thread_layers entries: the ranges of threads id and id+1 abut)",
                   "wait-position": "threads id < n wait at the first element of their last layer, thread n never waits (fence n+1 is never opened in layered mode)",
                   "open-position": "threads id >= 2 open at the last element of their first layer"}
            for what in res:
                ck.ob(R, name + "/" + what, not res[what],
                      ("; ".join(res[what][:3])) if res[what] else "%s in all %d contexts (%s with F=%s, G=%s)" % (doc[what], len(ctxs), {"range-begin": "F(G(id-1))", "range-end": "F(G(id))", "wait-position": "F(G(id)-1)", "open-position": "F(G(id-1)+1)-1"}[what], Fn_, Gn_),
                      fn.file, loop.get("l"))
            # element handed to prepare()
            prep = [e for e in inner if e["k"] == "task" and e["name"] == "prepare" and e["node"].get("a")]
            if not prep:
                raise Unknown("no task->prepare(cell) in the element loop")
            top_form = lambda nd: sx(fn, nd, {**wsym, ("l", ln[0]): K, ("inits",): single_def_inits(fn)})
            got = [e["proto"].form(e["node"]["a"][0], top_form) for e in prep]
            rp = [refute_zero(g - VF(En_)(K)) for g in got]
            if any(r_ == "unknown" for r_ in rp):
                raise Unknown("prepare() argument %s not comparable with %s[k]" % (got, En_))
            ck.ob(R, name + "/prepared-element", all(r_ is None for r_ in rp), "prepare() receives %s for loop position k (expected %s(k))" % (got, En_), fn.file, prep[0].get("l"))
        except Unknown as e:
            ck.incomplete("E7.layered-wait-before-scatter", "%s: %s" % (name, e))


def wait_result_use(fx, n, what):
    """how the boolean result of call `n` (a ThreadFence::wait(), or a member helper that forwards a
    wait result) is used in fx's function.  Returns (verdict, detail) with verdict
      "ok"        a false result leads to `return false` before any further task/fence operation
      "forwarded" the result (and nothing else) is returned to the caller, no task/fence operation between
      "bad"       definite misuse (detail says which)
      "unknown"   not modelled (detail says why)"""
    fn = fx.fn
    sync_helper = lambda x: x.get("k") == "MCall" and (x.get("obj") or {}).get("k") == "This" and x is not n and \
        (find_method(fn.cls, x) is None or has_sync_events(find_method(fn.cls, x)))
    sensitive = [x["i"] for x in fn.nodes() if x.get("i") is not None and x is not n and (task_call(x) or fence_call(x) or sync_helper(x))]
    is_false = lambda r: strip(r.get("e") or {}).get("k") == "Bool" and strip(r["e"])["v"] is False
    rets = [x for x in fn.nodes() if x.get("k") == "Return" and not any(a_.get("k") == "Lambda" for a_ in fx.ancestors(x))]
    false_rets = [x["i"] for x in rets if is_false(x)]
    p = fx.parent.get(id(n))
    q = n
    while p is not None and p.get("k") == "Cast":
        q, p = p, fx.parent.get(id(p))
    discarded = p is None or p.get("k") in ("Block", "Case", "Default", "Try") or \
        (p.get("k") in ("If",) and q is not p.get("c")) or (p.get("k") in ("For", "While", "Do", "ForRange") and q is p.get("body")) or \
        (fx.parent.get(id(n)) or {}).get("to") == "void"
    if discarded:
        return "bad", "the result of %s at line %s is discarded: after a failure elsewhere (false status) this thread carries on - it scatters next to a thread that gave up or never leaves the round protocol" % (what, n.get("l"))
    # result stored in a local?
    var = None
    a = fx.parent.get(id(n))
    while a is not None and a.get("k") in ("Cast",):
        a = fx.parent.get(id(a))
    if a is not None and a.get("k") == "Var":
        var = a["d"]
    elif a is not None and a.get("k") == "Assign" and a.get("op") == "=" and strip(a["lhs"]).get("k") == "Ref" and strip(a["rhs"]) is n:
        var = strip(a["lhs"])["d"]
    if var is not None and var not in single_def_inits(fn) and a.get("k") == "Var":
        var_dirty = True
    else:
        var_dirty = False
    mentions = lambda c: any(x is n for x in walk(c)) or (var is not None and any(x.get("k") == "Ref" and x.get("d") == var for x in walk(c)))
    tests = []
    undecided = None
    for b in fx.cfg.blocks.values():
        if b.get("cond") is None or len(b.get("succ", [])) != 2:
            continue
        c = fn.by_id(b["cond"])
        if c is None or not mentions(c):
            continue
        env = Env()
        env.callvals[n["i"]] = 0
        if var is not None:
            env.locs[var] = 0
        try:
            v = ev(fn, c, env)
        except Unknown as ex:
            undecided = str(ex)
            continue
        tests.append((b["id"], b["succ"][0 if v else 1]))
    wpos = fx.pos(n)
    if not tests:
        # forwarded to the caller: every return reachable from the call returns exactly the result
        fwd = [r for r in rets if r.get("e") is not None and (strip(r["e"]) is n or (var is not None and not var_dirty and strip(r["e"]).get("k") == "Ref" and strip(r["e"]).get("d") == var))]
        if fwd and undecided is None:
            others = [r["i"] for r in rets if r not in fwd and not is_false(r)]
            r1 = fx.reach((wpos[0], wpos[1] + 1), target_stmts=sensitive + others, avoid_blocks=fx.cfg.noreturn_blocks())
            if r1 is None:
                return "forwarded", "the result of %s is returned to the caller" % what
        return "unknown", "the result of %s at line %s is used in a way that is not modelled (%s)" % (what, n.get("l"), undecided or "no branch tests it")
    nonfalse = [x["i"] for x in rets if not is_false(x)]
    tblocks = [t[0] for t in tests]
    covered = wpos[0] in tblocks or fx.reach((wpos[0], wpos[1] + 1), target_stmts=sensitive + nonfalse, avoid_blocks=tblocks) is None
    bad_fail = None
    for tb, fs in tests:
        if fs is None:
            continue
        r1 = fx.reach((fs, 0), target_stmts=sensitive + nonfalse, avoid_blocks=fx.cfg.noreturn_blocks())
        r2 = fx.reach((fs, 0), target_blocks=[fx.cfg.exit], avoid_stmts=false_rets, avoid_blocks=fx.cfg.noreturn_blocks())
        if r1 is not None or r2 is not None:
            bad_fail = (tb, r1, r2)
    if covered and bad_fail is None:
        return "ok", "a false result (failed neighbour/master) leads to `return false` before any further task/fence operation"
    if not covered:
        return "bad", "after %s at line %s a task/fence operation is reachable before the result is tested" % (what, n.get("l"))
    return "bad", "when %s at line %s returns false the thread does not leave with `return false` (it reaches %s): it carries on next to a thread that gave up" % (
        what, n.get("l"), "line %s" % (fn.by_id(bad_fail[1][1]) or {}).get("l") if bad_fail[1] else "a normal return")


def rule_wait_results(ck, job, vctx):
    R = "E14.wait-result-checked"
    wm = job.wm
    site = next((s for s in job.sites if s.where == "assemble"), None)
    wsym = worker_sym(job, site)
    for variant in sorted(vctx):
        fn = wm.methods[variant]
        fx = wm.fx(fn)
        try:
            items = Proto(fx, wm.field_of.get("thread_fences"), wsym, own=ID).stmts(fn.body.get("s", []))
        except Unknown as e:
            ck.incomplete(R, "%s::%s: %s" % (job.name, variant, e))
            continue
        cnt = {}
        for e in all_events(items):
            if e["k"] != "wait":
                continue
            f = e["f"] if isinstance(e["f"], str) else e["f"][1]
            cnt[f] = cnt.get(f, 0) + 1
            key = "%s::%s/wait(%s)#%d" % (job.name, variant, f, cnt[f])
            what = "wait() on fence %s" % f
            # follow the result outwards through the helpers the wait is inlined from: in each helper a
            # false result must end in `return false` or be returned; the outermost function must
            # leave with `return false`
            chain = list(e.get("chain", []))          # helper calls, outermost first
            node, nfx = e["node"], e["fx"]
            verdict, detail = wait_result_use(nfx, node, what)
            while verdict in ("ok", "forwarded") and chain:
                call = chain.pop()                  # the call of the function analysed so far
                cfx = fx if not chain else None
                if cfx is None:
                    cfn = next((g for g in wm.methods.values() if any(x is call for x in g.nodes())), None)
                    cfx = wm.fx(cfn) if cfn is not None else None
                if cfx is None or not cfx.owns(call):
                    verdict, detail = "unknown", "caller of the helper at line %s not found" % call.get("l")
                    break
                if "bool" not in (cfx.fn.ntype(call) or ""):
                    verdict, detail = "unknown", "%s (line %s) happens inside the helper `%s`, whose result is not a bool status" % (what, e["l"], call.get("callee", "").rsplit("::", 1)[-1])
                    break
                what = "the helper `%s` (forwarding the result of wait() on fence %s)" % (call.get("callee", "").rsplit("::", 1)[-1], f)
                verdict, detail = wait_result_use(cfx, call, what)
            if verdict == "forwarded":
                # `return fence.wait();` as the last synchronisation of the work function: false is returned
                verdict, detail = "ok", "the wait result is what %s() returns, with no task/fence operation after the wait" % variant
            if verdict == "unknown":
                ck.incomplete(R, "%s: %s" % (key, detail))
                continue
            ck.ob(R, key, verdict == "ok", detail, fn.file, e["l"])


def rule_failure_open(ck, job):
    R = "E14.failure-opens-fence"
    wm = job.wm
    fn = wm.call_op
    fx = wm.fx(fn)
    site = next((s for s in job.sites if s.where == "assemble"), None)
    wsym = worker_sym(job, site)
    key = "%s::operator()/not-okay->open(own,false)" % job.name
    try:
        variants_ = {n_.get("n") for n_ in fn.nodes() if n_.get("k") == "MCall" and (n_.get("obj") or {}).get("k") == "This" and n_.get("n") in wm.methods
                     and any("unique_ptr" in fn.ntype(strip(a_)) for a_ in n_.get("a", []))}
        items = Proto(fx, wm.field_of.get("thread_fences"), wsym, own=ID, skip=variants_).stmts(fn.body.get("s", []))
        opens = [e for e in all_events(items) if e["k"] == "open" and e["f"] == "OWN"]
        disp = [n for n in fn.nodes() if n.get("k") == "MCall" and (n.get("obj") or {}).get("k") == "This" and n.get("n") in wm.methods and n.get("n") != "operator()"
                and has_sync_events(wm.methods[n["n"]]) and any("unique_ptr" in fn.ntype(strip(a_)) for a_ in n.get("a", []))]
        flag = set()
        for d in disp:
            p = fx.parent.get(id(d))
            if p is not None and p.get("k") == "Assign" and strip(p["lhs"]).get("k") == "Ref":
                flag.add(strip(p["lhs"])["d"])
            else:
                flag.add(None)
        if len(flag) != 1 or None in flag:
            raise Unknown("the results of the work functions are not all stored in one status variable")
        fd = flag.pop()
        var = next(n for n in fn.nodes() if n.get("k") == "Var" and n.get("d") == fd)
        isbool = lambda x, v: strip(x or {}).get("k") == "Bool" and strip(x)["v"] is v
        init_false = isbool(var.get("init"), False)
        sets_true = [n for n in fn.nodes() if n.get("k") == "Assign" and strip(n["lhs"]).get("d") == fd and isbool(n["rhs"], True)]
        sets_false = [n["i"] for n in fn.nodes() if n.get("k") == "Assign" and strip(n["lhs"]).get("d") == fd and isbool(n["rhs"], False)]
        # edges taken when the status is true are the legitimate ways around the open
        cut = []
        for b_ in fx.cfg.blocks.values():
            if b_.get("cond") is None or len(b_.get("succ", [])) != 2:
                continue
            c = fn.by_id(b_["cond"])
            if c is None or not any(x.get("k") == "Ref" and x.get("d") == fd for x in walk(c)):
                continue
            env = Env(locs={fd: 1})
            try:
                cut.append((b_["id"], b_["succ"][0 if ev(fn, c, env) else 1]))
            except Unknown:
                raise Unknown("status test `%s` not evaluable" % render(c))
        if not opens or not cut:
            raise Unknown("operator() has no `status false -> open(own fence)` structure (opens=%d, status tests=%d); failure notification may be organised differently" % (len(opens), len(cut)))
        O = [cfg_stmt(fx, e)["i"] for e in opens]
        tries = [b_["id"] for b_ in fx.cfg.blocks.values() if b_.get("term") == "CXXTryStmt"]
        esc = fx.reach((fx.cfg.entry, 0), target_blocks=[fx.cfg.exit], avoid_stmts=O, cut_edges=cut)
        for s_ in tries:
            esc = esc or fx.reach((s_, 0), target_blocks=[fx.cfg.exit], avoid_stmts=O, cut_edges=cut)
        arg_false = all(isbool(e["arg"], False) for e in opens)
        # status on the exception path: false if the handler sets it, or if it starts false and nothing sets it true
        handler_sets = bool(tries) and all(fx.reach((s_, 0), target_blocks=[c_[0] for c_ in cut], avoid_stmts=sets_false) is None for s_ in tries)
        handler_ok = handler_sets or (init_false and not sets_true)
        handler_true = any(fx.reach((s_, 0), target_stmts=[n["i"] for n in sets_true]) is not None for s_ in tries) if sets_true else False
        if not handler_ok and not handler_true and esc is None and arg_false:
            raise Unknown("cannot establish that the status is false when an exception reaches the handler (status starts %s)" % render(var.get("init")))
        ok = handler_ok and esc is None and arg_false
        ck.ob(R, key, ok,
              "every path to the end of operator() on which the status may be false (work function returned false, or exception) opens the worker's own fence with `false` (the waiting neighbour/master is released and learns of the failure)" if ok
              else "a worker whose work function failed (false wait result or exception) can finish without opening its own fence with status false (path around the open=%s, open(false)=%s, status false on the exception path=%s): the thread/master waiting on that fence blocks forever" % (esc is not None, arg_false, handler_ok),
              fn.file, opens[0]["l"] if opens else fn.line)
    except (Unknown, StopIteration) as e:
        ck.incomplete(R, "%s: %s" % (key, e))


# -------------------------------------------------------------------------------------------------
# clause 5: every selected cell exactly once (range partition)
# -------------------------------------------------------------------------------------------------

def refute_zero(expr, admissible=()):
    """a concrete assignment (vector entries / sizes as small integers, with all `admissible`
    expressions >= 0) for which expr != 0, or None.  "unknown" if expr is not numeric afterwards."""
    expr = sympy.simplify(expr)
    if expr == 0:
        return None
    apps = sorted(expr.atoms(sympy.core.function.AppliedUndef) | set().union(*[sympy.sympify(a).atoms(sympy.core.function.AppliedUndef) for a in admissible]) if admissible else expr.atoms(sympy.core.function.AppliedUndef), key=str)
    rep = {a: sympy.Symbol("x%d" % i, integer=True) for i, a in enumerate(apps)}
    e2 = expr.xreplace(rep)
    adm = [sympy.sympify(a).xreplace(rep) for a in admissible]
    syms = sorted(set(e2.free_symbols) | set().union(*[a.free_symbols for a in adm]) if adm else e2.free_symbols, key=str)
    if len(syms) > 4:
        return "unknown"
    for vals in itertools.product((5, 8, 3, 13, 2, 1, 0), repeat=len(syms)):
        sub = dict(zip(syms, vals))
        try:
            if any(a.subs(sub) < 0 for a in adm):
                continue
            v = e2.subs(sub)
        except TypeError:
            return "unknown"
        if not v.is_number:
            return "unknown"
        if v != 0:
            inv = {v_: k_ for k_, v_ in rep.items()}
            return {str(inv.get(k_, k_)): v_ for k_, v_ in sub.items()}
    return "unknown"


def loop_values(fn, init, cond, step, sym, var, subs, cap=12):
    """concrete values of a counting loop variable: init, init+step, ... while cond holds, with the
    symbols of `subs` replaced by numbers"""
    v0 = sx(fn, init, sym)
    d = cond_form(fn, cond, {**sym, ("l", var): K})
    v0 = sympy.simplify(v0.subs(subs))
    if not v0.is_Integer:
        raise Unknown("loop start %s not numeric" % v0)
    out = []
    k = int(v0)
    while len(out) < cap:
        dv = sympy.simplify(d.subs(subs).subs(K, k))
        if not dv.is_Integer:
            raise Unknown("loop bound %s not numeric" % dv)
        if dv <= 0:
            break
        out.append(k)
        k += step
    return out


def rule_partition(ck, job, vctx, enum):
    R = "E5.range-partition"
    wm = job.wm
    site = next((s for s in job.sites if s.where == "assemble"), None)
    wsym = worker_sym(job, site)
    En_ = this_field(site.arg.get("element_indices"))
    Cn_ = this_field(site.arg.get("color_elements"))
    colored = enum.get("colored")
    for variant in sorted(vctx):
        fn = wm.methods[variant]
        fx = wm.fx(fn)
        name = "%s::%s" % (job.name, variant)
        try:
            items = Proto(fx, wm.field_of.get("thread_fences"), wsym, own=ID).stmts(fn.body.get("s", []))
            is_layered = wm.flag("need_scatter") and any(c_[3] == "assemble" and c_[2] != colored and c_[1] > 1 for c_ in vctx[variant])
            if is_layered or any(e["k"] == "wait" and e["f"] == "NEXT" for e in all_events(items)):
                continue        # layered: E7.layered-* / E5.layered-positions
            loop = work_loop(fx)
            works = [i for i in all_events(items) if i["k"] == "work" and fx.owns(i["loop"])]
            if loop is None and len(works) == 1:
                loop = works[0]["loop"]         # the task calls of the element loop sit in a member helper
            works = [w_ for w_ in works if w_["loop"] is loop]
            ln = loop_normal(fx, loop) if loop is not None else None
            if ln is None or ln[3] != 1 or len(works) != 1:
                raise Unknown("element loop is not an ascending counting loop")
            c = strip(ln[2])
            if c.get("k") != "Bin" or c["op"] != "<" or strip(c["lhs"]).get("d") != ln[0]:
                raise Unknown("element loop bound is not `element < end`")
            scope = (fx.enclosing_loops(loop) or [None])[0]
            sym = dict(wsym)
            RC = sympy.Symbol("c", integer=True, nonnegative=True)
            rl = None
            if scope is not None:
                rl = loop_normal(fx, scope)
                if rl is None:
                    raise Unknown("round loop is not a counting loop")
                sym[("l", rl[0])] = RC
            ctxs = sorted({(c_[0], c_[1], c_[2]) for c_ in vctx[variant]})
            prep = [e for e in list(all_events(works[0]["inner"])) + list(works[0]["tasks"]) if e["k"] == "task" and e["name"] == "prepare" and e["node"].get("a")]
            if len(prep) != 1:
                raise Unknown("%d prepare() calls in the element loop" % len(prep))
            E = VF(En_)
            bad = []
            forms = set()
            by_n = {}
            cache = {}
            for ctx in ctxs:
                beg = node_form(wm, fx, ln[1], ctx, sym, scope, cache)
                end = node_form(wm, fx, c["rhs"], ctx, sym, scope, cache)
                pidx = prep[0]["proto"].form(prep[0]["node"]["a"][0], lambda nd: node_form(wm, fx, nd, ctx, {**sym, ("l", ln[0]): K}, scope, cache))
                if not (pidx.func == E and len(pidx.args) == 1):
                    raise Unknown("prepare() argument %s is not an entry of the element index vector" % pidx)
                base = sympy.simplify(pidx.args[0] - K)
                if base.has(K):
                    raise Unknown("prepare() index %s is not `offset + loop position`" % pidx.args[0])
                forms.add((beg, end, base))
                sub = {ID: ctx[0], NW: ctx[1]} if ctx[1] > 0 else {ID: ctx[0]}
                by_n.setdefault((ctx[1], ctx[2]), {})[ctx[0]] = (sympy.simplify(beg.subs(sub)), sympy.simplify(end.subs(sub)), base)
            bases = {f_[2] for f_ in forms}
            if len(bases) != 1:
                raise Unknown("the offset of the prepared element differs between contexts: %s" % bases)
            base = bases.pop()
            round_note = ""
            if scope is None:
                if base != 0:
                    raise Unknown("unexpected element offset %s outside a round loop" % base)
                lo, hi = sympy.Integer(0), sympy.Symbol("size_%s" % En_, integer=True, nonnegative=True)
            else:
                C = VF(Cn_)
                # absolute start of the first worker's range in a round: must be a colour offset C(g);
                # the offset may be added at prepare() (base) or already be part of the range bounds
                starts = set()
                for (nw_, st_), per_ in by_n.items():
                    if nw_ >= 1 and per_:
                        starts.add(sympy.simplify(base + per_[min(per_)][0]))
                if len(starts) != 1:
                    raise Unknown("the first worker's start position differs between contexts: %s" % sorted(map(str, starts)))
                start = starts.pop()
                if not start.has(RC):
                    # definite: the first worker starts at the same cell in every round, whatever the
                    # colour tables hold
                    ck.ob(R, name, False,
                          "inside the colour round loop the first worker's first cell is %s(%s) in every round (prepare() receives %s(%s + position)): the start does not depend on the colour round, so with >= 2 colours cells of the first interval are assembled in every round and the cells of later colours never" % (
                              En_, start, En_, base),
                          fn.file, prep[0]["l"])
                    continue
                if not (start.func == C and len(start.args) == 1):
                    raise Unknown("the first element %s of a round is not an entry of the colour offsets vector" % start)
                g = start.args[0]
                lo, hi = C(g), C(g + 1)
                # the rounds must visit every interval [C(j), C(j+1)), j = 0 .. size-2, once
                sizeC = sympy.Symbol("size_%s" % Cn_, integer=True, nonnegative=True)
                for size in range(1, 6):
                    vals = loop_values(fn, rl[1], rl[2], rl[3], sym, rl[0], {sizeC: size})
                    js = [sympy.simplify(g.subs(RC, v)) for v in vals]
                    if not all(j.is_Integer for j in js):
                        raise Unknown("colour index %s not numeric" % g)
                    if sorted(int(j) for j in js) != list(range(0, size - 1)):
                        bad.append("with %d colour offsets the rounds visit the colour intervals %s instead of %s" % (size, sorted(int(j) for j in js), list(range(0, size - 1))))
                        break
                round_note = "; rounds visit every colour interval exactly once (offset vectors of 1..5 entries)"
            undecided = []

            def differs(what, expr):
                r = refute_zero(expr, admissible=[hi - lo])
                if r is None:
                    return
                if r == "unknown":
                    undecided.append(what)
                else:
                    bad.append("%s (e.g. for %s)" % (what, r))
            for (nw, st), per in sorted(by_n.items()):
                ids = sorted(per)
                if nw >= 1 and ids != list(range(1, nw + 1)):
                    raise Unknown("worker ids %s for n=%d" % (ids, nw))
                first, last = per[ids[0]], per[ids[-1]]
                differs("n=%d: first worker starts at %s, not at %s" % (nw, sympy.simplify(base + first[0]), lo), base + first[0] - lo)
                differs("n=%d: last worker (id=%d) ends at %s, not at %s" % (nw, ids[-1], sympy.simplify(base + last[1]), hi), base + last[1] - hi)
                for a, b in zip(ids, ids[1:]):
                    differs("n=%d: range of worker %d ends at %s but worker %d starts at %s" % (nw, a, per[a][1], b, per[b][0]), per[a][1] - per[b][0])
            if undecided and not bad:
                raise Unknown("could not decide: %s" % undecided[0])
            symbolic = ""
            if len(forms) == 1 and len({c_[1] for c_ in ctxs if c_[1] >= 2}) >= 2:
                beg, end, base_ = next(iter(forms))
                ok_s = (sympy.simplify(end.subs(ID, ID - 1) - beg) == 0 and sympy.simplify(base + beg.subs(ID, 1) - lo) == 0 and sympy.simplify(base + end.subs(ID, NW) - hi) == 0)
                symbolic = "; symbolically end(id-1) == beg(id), beg(1) == %s, end(n) == %s: %s" % (lo, hi, ok_s)
                if not ok_s and not bad:
                    ck.note("%s: the symbolic partition identities could not be established by sympy for beg=%s end=%s (the enumerated worker counts hold)" % (name, beg, end))
            ck.ob(R, name, not bad,
                  "; ".join(bad[:4]) if bad else "the element ranges [beg(id), end(id)) of the workers partition [%s, %s) for every worker count in the %d contexts%s%s" % (lo, hi, len(ctxs), symbolic, round_note),
                  fn.file, loop.get("l"), sample={"forms": [str(f_) for f_ in forms]})
        except Unknown as e:
            ck.incomplete(R, "%s: %s" % (name, e))


def rule_thread_layer_ends(ck, facts):
    R = "E5.thread-layers-ends"
    fns = [f for f in facts.functions if f.name == "_build_thread_layers"]
    if not fns:
        # inlined into its caller: any set-up function of the assembler stating the front/back pair
        fns = [f for f in facts.functions if re.search(r"DomainAssembler<", f.cls) and "::Worker<" not in f.cls and f.body is not None
               and any(n.get("k") == "Call" and n.get("callee") == "FEAT::assertion" and n.get("a") and
                       any(x.get("k") == "MCall" and x.get("n") == "front" and this_field(x.get("obj")) for x in walk(n["a"][0])) for n in f.nodes())]
    if not fns:
        ck.incomplete(R, "_build_thread_layers not found")
        return
    fn = fns[0]
    fx = FX(fn)
    texts = {}
    for n in fn.nodes():
        if n.get("k") == "Call" and n.get("callee") == "FEAT::assertion" and n.get("a"):
            c = strip(n["a"][0])
            if c.get("k") == "Bin" and c["op"] == "==":
                for l_, r_ in ((c["lhs"], c["rhs"]), (c["rhs"], c["lhs"])):
                    try:
                        texts[str(sx(fn, l_, {("inits",): single_def_inits(fn)}))] = (r_, n)
                    except Unknown:
                        pass
    tl = None
    for k_ in texts:
        m = re.match(r"^(\w+)\(0\)$", k_)
        if m:
            tl = m.group(1)
    if tl is None:
        ck.incomplete(R, "_build_thread_layers: no XASSERT on the first/last thread-layer entry found (the property of the vector may be established differently)")
        return
    try:
        front = texts.get("%s(0)" % tl)
        back = texts.get("%s(size_%s - 1)" % (tl, tl))
        if front is None or back is None:
            raise Unknown("front/back assertion pair incomplete")
        f_ok = sx(fn, front[0], {("inits",): single_def_inits(fn)}) == 0
        v = sx(fn, back[0], {("inits",): single_def_inits(fn)})
        b_ok = bool(re.match(r"^size_\w+ - 1$", str(v)))
        if not (f_ok and b_ok):
            raise Unknown("asserted values %s / %s not recognised as 0 / number of layers" % (render(front[0]), v))
        ck.ob(R, "_build_thread_layers/front-back", True,
              "_build_thread_layers asserts %s.front() == 0 and %s.back() == number of layers: the layered element ranges start at the first and end at the last layer" % (tl, tl), fn.file, fn.line)
    except Unknown as e:
        ck.incomplete(R, "_build_thread_layers: %s" % e)


# -------------------------------------------------------------------------------------------------
# clause 7: join / clear on every exit, fences closed before the threads start
# -------------------------------------------------------------------------------------------------

def all_loop_over(fx, loop, vec_field, alt_bound_field=None):
    """loop visits every entry of this->vec_field: range-for over it, k = 0; k < size (or the given
    count field); ++k, or an iterator loop begin()..end().  Returns the element-access test or None"""
    fn = fx.fn
    if loop.get("k") == "ForRange" and this_field(loop.get("range")) == vec_field:
        d = (loop.get("var") or {}).get("d")
        return lambda o: strip(o).get("k") == "Ref" and strip(o).get("d") == d
    if loop.get("k") not in ("For", "While"):
        return None
    ln = loop_normal(fx, loop)
    if ln is not None and ln[3] == 1:
        try:
            if sx(fn, ln[1], {}) != 0:
                return None
            cf = cond_form(fn, ln[2], {("l", ln[0]): K})
        except Unknown:
            return None
        bounds = [sympy.Symbol("size_%s" % vec_field, integer=True, nonnegative=True) - K]
        if alt_bound_field:
            bounds.append(sympy.Symbol(alt_bound_field, integer=True, nonnegative=True) - K)
        if not any(sympy.simplify(cf - b) == 0 for b in bounds):
            return None

        def acc(o):
            o = strip(o)
            try:
                return sx(fn, o, {("l", ln[0]): K}) == VF(vec_field)(K)
            except Unknown:
                return False
        return acc
    # iterator loop: for(auto it = v.begin(); it != v.end(); ++it)
    if loop.get("k") != "For":
        return None
    init, c, inc = loop.get("init"), strip(loop.get("c") or {}), strip(loop.get("inc") or {})
    if init is None or init.get("k") != "Decl" or len(init.get("vars", [])) != 1:
        return None
    v = init["vars"][0]
    i0 = strip(v.get("init") or {})
    is_m = lambda x, nm: strip(x).get("k") == "MCall" and strip(x).get("n") in nm and this_field(strip(x).get("obj")) == vec_field
    if not is_m(i0, ("begin", "cbegin")):
        return None
    ca = c.get("a", []) if c.get("k") == "OpCall" and c.get("op") == "!=" else ([c.get("lhs"), c.get("rhs")] if c.get("k") == "Bin" and c.get("op") == "!=" else [])
    if len(ca) != 2 or not ((strip(ca[0]).get("d") == v["d"] and is_m(ca[1], ("end", "cend"))) or (strip(ca[1]).get("d") == v["d"] and is_m(ca[0], ("end", "cend")))):
        return None
    ie = strip((inc.get("a") or [None])[0] or {}) if inc.get("k") == "OpCall" else strip(inc.get("e") or {})
    if inc.get("op") != "++" or ie.get("d") != v["d"]:
        return None

    def acc_it(o):
        o = strip(o)
        if o.get("k") == "OpCall" and o.get("op") in ("->", "*") and o.get("a"):
            o = strip(o["a"][0])
        elif o.get("k") == "Un" and o.get("op") == "*":
            o = strip(o["e"])
        return o.get("k") == "Ref" and o.get("d") == v["d"]
    return acc_it


VEC_READS = ("at", "operator[]", "size", "empty", "begin", "end", "cbegin", "cend", "front", "back", "reserve", "capacity", "emplace_back", "push_back", "data")


def sync_marks(fx, tvec, ffield, nfield, depth=0):
    """CFG marks of the join-all / close-all-fences / clear effects of a DomainAssembler member
    function, including member helpers that perform them on every path; plus the statements whose
    effect on threads/fences is not modelled"""
    fn = fx.fn
    m = {"join": {"blocks": set(), "stmts": set()}, "close": {"blocks": set(), "stmts": set()}, "clear": {"blocks": set(), "stmts": set()},
         "join_other": set(), "close_other": set(), "clear_other": set(), "close_partial": set()}
    in_good = set()
    for lp in fn.nodes():
        if lp.get("k") not in ("For", "ForRange", "While"):
            continue
        body_calls = [n for n in walk(lp.get("body")) if n.get("k") == "MCall"]
        js = [n for n in body_calls if n.get("callee") == "std::thread::join"]
        if js:
            acc = all_loop_over(fx, lp, tvec, nfield)
            if acc is not None and all(acc(j.get("obj")) for j in js) and not fx.guards(js[0], stop=lp) and fx.header_block(lp) is not None:
                m["join"]["blocks"].add(fx.header_block(lp))
                in_good |= {id(j) for j in js}
        cs = [n for n in body_calls if n.get("callee") == "FEAT::ThreadFence::close"]
        if cs:
            acc = all_loop_over(fx, lp, ffield)
            if acc is not None and all(acc(resolve_alias(fx, c_.get("obj"))) for c_ in cs) and not fx.guards(cs[0], stop=lp) and fx.header_block(lp) is not None:
                m["close"]["blocks"].add(fx.header_block(lp))
                in_good |= {id(c_) for c_ in cs}
    for n in fn.nodes():
        if not is_call(n) or n.get("i") is None or fx.cfg.block_of(n["i"]) is None:
            continue
        if n.get("k") == "MCall" and n.get("callee") == "std::thread::join" and id(n) not in in_good:
            m["join_other"].add(n["i"])
        elif n.get("k") == "MCall" and n.get("callee") == "FEAT::ThreadFence::close" and id(n) not in in_good:
            if fx.enclosing_loops(n):
                m["close_other"].add(n["i"])
            else:
                m["close_partial"].add(n["i"])
        elif n.get("k") == "MCall" and this_field(n.get("obj")) == tvec:
            if n.get("n") == "clear" and not n.get("a"):
                m["clear"]["stmts"].add(n["i"])
            elif n.get("n") not in VEC_READS:
                m["clear_other"].add(n["i"])
        elif n.get("k") == "MCall" and (n.get("obj") or {}).get("k") == "This":
            h = find_method(fn.cls, n)
            if h is None or h.cfg is None or depth >= 2:
                for k_ in ("join_other", "close_other", "clear_other"):
                    m[k_].add(n["i"])
                continue
            hx = FX(h)
            hm = sync_marks(hx, tvec, ffield, nfield, depth + 1)
            for eff in ("join", "close", "clear"):
                touches = bool(hm[eff]["blocks"] or hm[eff]["stmts"] or hm[eff + "_other"] or (eff == "close" and hm["close_partial"]))
                if not touches:
                    continue
                always = hx.reach((hx.cfg.entry, 0), target_blocks=[hx.cfg.exit], avoid_blocks=hm[eff]["blocks"] | hx.cfg.noreturn_blocks(), avoid_stmts=hm[eff]["stmts"]) is None
                if always and not h.d.get("virtual"):
                    m[eff]["stmts"].add(n["i"])
                else:
                    m[eff + "_other"].add(n["i"])
        else:
            # thread vector / fences handed to an unmodelled callee (std::for_each, free helper ...)
            for a in n.get("a", []):
                flds = {this_field(x) for x in walk(a) if x.get("k") == "Member"}
                if tvec in flds and "std::thread" not in (n.get("ccls") or "") and n.get("callee") != "std::thread::join":
                    m["join_other"].add(n["i"])
                    m["clear_other"].add(n["i"])
                if ffield in flds and not fence_call(n) and (n.get("ccls") or "").find("Worker<") < 0 and n.get("k") not in ("Construct", "TempObj"):
                    m["close_other"].add(n["i"])
    # assignment to the thread vector
    for n in fn.nodes():
        if n.get("k") in ("Assign", "OpCall") and n.get("i") is not None and fx.cfg.block_of(n["i"]) is not None:
            lhs = n.get("lhs") if n.get("k") == "Assign" else (n.get("a") or [None])[0] if n.get("op") == "=" else None
            if lhs is not None and this_field(lhs) == tvec:
                m["clear_other"].add(n["i"])
    return m


def rule_join(ck, job):
    fxa = job.assemble
    fn = fxa.fn
    site = next((s for s in job.sites if s.where == "assemble"), None)
    nfield = this_field(site.arg.get("num_workers"))
    ffield = this_field(site.arg.get("thread_fences"))
    name = "%s/assemble" % job.name
    creates = [n for n in fn.nodes() if n.get("k") == "MCall" and n.get("n") in ("emplace_back", "push_back") and "std::thread" in fn.ntype(strip(n.get("obj") or {}))
               and this_field(n.get("obj"))]
    R = "E7.join-all-exits"
    if len(creates) != 1:
        ck.incomplete(R, "%s: expected one statement appending a std::thread to a member vector, found %d" % (name, len(creates)))
        return
    cr = creates[0]
    tvec = this_field(cr.get("obj"))
    cpos = fxa.pos(cr)
    m = sync_marks(fxa, tvec, ffield, nfield)
    nr = fxa.cfg.noreturn_blocks()
    start = (cpos[0], cpos[1] + 1)
    esc = fxa.reach(start, target_blocks=[fxa.cfg.exit], avoid_blocks=m["join"]["blocks"] | nr, avoid_stmts=m["join"]["stmts"])
    esc2 = fxa.reach(start, target_blocks=[fxa.cfg.exit], avoid_stmts=m["clear"]["stmts"], avoid_blocks=nr)
    clear_ids = list(m["clear"]["stmts"])
    esc3 = fxa.reach(start, target_stmts=clear_ids, avoid_blocks=m["join"]["blocks"] | nr, avoid_stmts=m["join"]["stmts"]) if clear_ids else None
    why, soft = [], []
    if esc is not None:
        if fxa.reach(start, target_blocks=[fxa.cfg.exit], avoid_blocks=m["join"]["blocks"] | nr, avoid_stmts=m["join"]["stmts"] | m["join_other"]) is None:
            soft.append("threads are joined by a construct that is not modelled (join outside a recognised all-threads loop, or a helper/algorithm receiving %s)" % tvec)
        else:
            why.append("a path from the creation of the worker threads to the return of assemble() passes no join at all (unjoined threads keep scattering into containers the caller already uses; the next job aborts on `already executing a job`)")
    if esc2 is not None:
        if fxa.reach(start, target_blocks=[fxa.cfg.exit], avoid_stmts=m["clear"]["stmts"] | m["clear_other"], avoid_blocks=nr) is None:
            soft.append("%s is emptied by a construct that is not modelled" % tvec)
        else:
            why.append("a normal exit is reached without %s.clear(): the next assemble() call aborts with `already executing a job`" % tvec)
    if esc3 is not None:
        if fxa.reach(start, target_stmts=clear_ids, avoid_blocks=m["join"]["blocks"] | nr, avoid_stmts=m["join"]["stmts"] | m["join_other"]) is None:
            soft.append("join before clear happens through an unmodelled construct")
        else:
            why.append("%s.clear() is reachable before any join (std::terminate on destruction of a joinable thread)" % tvec)
    if soft and not why:
        ck.incomplete(R, "%s: %s" % (name, "; ".join(soft)))
    else:
        ck.ob(R, name, not why, "; ".join(why) if why else "every path from thread creation to a normal return joins all entries of %s (%d join-all loops/helpers) and then clears the vector" % (tvec, len(m["join"]["blocks"]) + len(m["join"]["stmts"])), fn.file, cr.get("l"))
    R = "E7.fences-closed-before-start"
    ok = any(h in fxa.cfg.dom.get(cpos[0], ()) for h in m["close"]["blocks"]) or any(fxa.dominates(fxa.pos(fn.by_id(s_)), cpos) for s_ in m["close"]["stmts"])
    if not ok:
        # definite only if some path to the creation passes nothing that could close all fences
        loose = fxa.reach((fxa.cfg.entry, 0), target_stmts=[cr["i"]], avoid_stmts=m["close"]["stmts"] | m["close_other"], avoid_blocks=m["close"]["blocks"])
        if loose is None:
            ck.incomplete(R, "%s: the fences are closed before the threads start by a construct that is not modelled (close() in an unrecognised loop or helper)" % name)
            return
    ck.ob(R, name, ok,
          "a loop (or helper) closing every fence of %s dominates the creation of the worker threads (fences left open by the previous job cannot release a worker early)" % ffield if ok
          else "a path reaches the creation of the worker threads without closing all fences of %s (%d single close() calls do not cover the workers' fences): the second job on this assembler finds fences of the first job still open, so waits pass immediately and adjacent layers/colours are scattered concurrently" % (ffield, len(m["close_partial"])),
          fn.file, cr.get("l"))


# -------------------------------------------------------------------------------------------------
# worker count: unsigned wrap in the work-distribution builders (tiny meshes: zero workers)
# -------------------------------------------------------------------------------------------------

def rule_count_wrap(ck, facts, nfield):
    R = "E13.worker-count-wrap"
    cls_fns = [f for f in facts.functions if "::Worker<" not in f.cls and re.search(r"DomainAssembler<", f.cls) and f.cfg is not None]
    assigns = lambda f: [n for n in f.nodes() if n.get("k") == "Assign" and n.get("op") == "=" and this_field(n["lhs"]) == nfield and strip(n["rhs"]).get("k") != "Int"]

    def expanded(e, inits, depth=0):
        """nodes of e, and of the initialisers of the single-definition locals it mentions"""
        for x in walk(e):
            yield x
            if x.get("k") == "Ref" and x.get("dk") == "local" and x.get("d") in inits and depth < 4:
                yield from expanded(inits[x["d"]], inits, depth + 1)
    for fn in cls_fns:
        asg = assigns(fn)
        if not asg:
            continue
        fx = FX(fn)
        # candidate loops: in the assigning function itself, and in the non-virtual member helpers it
        # calls (a phase of the builder split off into its own function sees the count through a
        # member read or a const local)
        cands = [(fn, fx, lp, None) for lp in fn.nodes() if lp.get("k") in ("For", "While")]
        for c in fn.nodes():
            if c.get("k") == "MCall" and (c.get("obj") or {}).get("k") == "This" and c.get("i") is not None and fx.cfg.block_of(c["i"]) is not None:
                h = find_method(fn.cls, c)
                if h is not None and h.cfg is not None and not h.d.get("virtual") and h.full != fn.full and not assigns(h):
                    hx = FX(h)
                    cands += [(h, hx, lp, c) for lp in h.nodes() if lp.get("k") in ("For", "While")]
        for lfn, lfx, lp, call in cands:
            ln = loop_normal(lfx, lp)
            if ln is None or ln[1] is None:
                continue
            inits = dict(single_def_inits(fn))
            inits.update(single_def_inits(lfn))
            if not any(this_field(x) == nfield and x.get("k") == "Member" for x in expanded(ln[1], inits)):
                continue
            if not any(x.get("k") == "Bin" and x["op"] == "-" and is_unsigned(lfn.ntype(x)) for x in walk(ln[1])):
                continue
            start = loop_start_stmt(lfx, lp)
            ipos = lfx.pos(start) if start is not None else None
            if ipos is None:
                continue
            # guards: (function, condition, required truth); position of the count's last assignment
            # relative to the loop = relative to the helper call for a loop inside a helper
            anchor = fx.pos(call) if call is not None else ipos
            conds = [(fn, c_, w_) for c_, w_ in path_conditions(fx, anchor[0])]
            if call is not None:
                conds += [(lfn, c_, w_) for c_, w_ in path_conditions(lfx, ipos[0])]
            doms = [a for a in asg if fx.dominates(fx.pos(a), anchor)]
            where = lfn.name if call is None else "%s->%s" % (fn.name, lfn.name)
            free_f, free_s = set(), set()
            for f_, e in [(lfn, ln[1])] + [(f_, c) for f_, c, _ in conds] + [(fn, a["rhs"]) for a in doms]:
                for x in expanded(e, inits):
                    if x.get("k") == "Member" and this_field(x) and "vector" not in f_.ntype(x) and is_unsigned(f_.ntype(x)):
                        free_f.add(this_field(x))
                    if x.get("k") == "MCall" and x.get("n") == "size" and this_field(x.get("obj")):
                        free_s.add(this_field(x.get("obj")))
            if doms:
                free_f.discard(nfield)
            free_f, free_s = sorted(free_f), sorted(free_s)
            bad = []
            total = 0
            uneval = []
            for f_, c_, _w in conds:
                try:
                    e0 = Env(fields={x_: 1 for x_ in free_f + [nfield]}, sizes={s_: 1 for s_ in free_s})
                    e0.inits = inits
                    ev(f_, c_, e0)
                except Unknown:
                    if relevant_condition(c_, set(free_f) | {nfield}, set()) or any(this_field(x) == nfield for x in expanded(c_, inits)):
                        uneval.append(render(c_))
            for vals in itertools.product(range(NMAX + 2), repeat=len(free_f) + len(free_s)):
                env = Env(fields=dict(zip(free_f, vals)), sizes=dict(zip(free_s, vals[len(free_f):])))
                env.inits = inits
                try:
                    if any(bool(ev(f_, c, env)) != want for f_, c, want in conds if not any(this_field(x) == nfield for x in expanded(c, inits))):
                        continue
                except Unknown:
                    pass
                try:
                    if doms:
                        env.fields[nfield] = ev(fn, doms[-1]["rhs"], env)
                    feasible = True
                    for f_, c, want in conds:
                        try:
                            if bool(ev(f_, c, env)) != want:
                                feasible = False
                        except Unknown:
                            pass
                    if not feasible:
                        continue
                    total += 1
                    env.wrapped = []
                    v0 = ev(lfn, ln[1], env)
                    if env.wrapped:
                        env.locs[ln[0]] = v0
                        try:
                            enters = bool(ev(lfn, ln[2], env))
                        except Unknown:
                            enters = True
                        if enters:
                            bad.append("%s, %s => %s = %d: `%s` wraps to %d and the loop body runs" % (
                                ", ".join("%s=%d" % kv for kv in env.fields.items() if kv[0] != nfield), ", ".join("%s.size()=%d" % kv for kv in env.sizes.items()), nfield, env.fields.get(nfield, -1), render(ln[1]), v0))
                except Unknown as e:
                    ck.incomplete(R, "%s: %s" % (where, e))
                    bad = None
                    break
            if bad is None:
                continue
            if bad and uneval:
                ck.incomplete(R, "%s: `%s` may wrap (%s), but the dominating guard(s) %s could not be evaluated" % (where, render(ln[1]), bad[-1], uneval))
                continue
            txt = render(ln[1])

            def unalias(node):
                # a const local standing for the count member is spelled as the member in the key
                if isinstance(node, list):
                    return [unalias(x) for x in node]
                if not isinstance(node, dict):
                    return node
                if node.get("k") == "Ref" and node.get("dk") == "local" and node.get("d") in inits and this_field(inits[node["d"]]) == nfield:
                    return strip(inits[node["d"]])
                return {k_: (unalias(v_) if isinstance(v_, (dict, list)) else v_) for k_, v_ in node.items()}
            key_expr = render(unalias(ln[1]))
            ck.ob(R, "%s/for-init(%s)" % (fn.name, key_expr), not bad,
                  "the loop at line %s%s starts at the unsigned value `%s`; admissible state %s (one of %d): the wrapped index is used (out-of-range .at() -> uncaught std::out_of_range, compile() terminates)" % (
                      lp.get("l"), "" if call is None else " of %s (called at line %s)" % (lfn.name, call.get("l")), txt, bad[-1], len(bad)) if bad
                  else "`%s`%s cannot wrap in the %d admissible states enumerated (values <= %d)" % (txt, "" if call is None else " in %s" % lfn.name, total, NMAX + 1),
                  lfn.file, lp.get("l"))


def rule_min_layers(ck, facts, nfield):
    """the worker count chosen from the layer table leaves every thread the minimum number of layers the
    balancing sweeps enforce: the forward sweep makes T(i+1) >= T(i) + c for i < t, so T(t) >= c*t, and
    the builder asserts T.back() == number of layers - hence c*t <= number of layers for every admissible
    (requested workers, layer-offset table size); otherwise that assertion aborts compile()"""
    R = "E13.thread-count-min-layers"
    cls_fns = [f for f in facts.functions if "::Worker<" not in f.cls and re.search(r"DomainAssembler<", f.cls) and f.cfg is not None and f.body is not None]
    # 1. the assertion T.back() == E
    found = None
    for f in cls_fns:
        for n in f.nodes():
            if n.get("k") == "Call" and n.get("callee") == "FEAT::assertion" and n.get("a"):
                c = strip(n["a"][0])
                if c.get("k") == "Bin" and c.get("op") == "==":
                    for l_, r_ in ((c["lhs"], c["rhs"]), (c["rhs"], c["lhs"])):
                        l0 = resolve_alias(FX(f), l_)
                        if l0 is not None and l0.get("k") == "MCall" and l0.get("n") == "back" and this_field(resolve_alias(FX(f), l0.get("obj"))):
                            found = (f, n, this_field(resolve_alias(FX(f), l0.get("obj"))), r_)
    if found is None:
        ck.incomplete(R, "no XASSERT(<thread layers>.back() == <number of layers>) found in the set-up functions (the invariant may be stated differently)")
        return
    fn, anode, T, E = found
    fx = FX(fn)
    asg = [n for n in fn.nodes() if n.get("k") == "Assign" and n.get("op") == "=" and this_field(n["lhs"]) == nfield and strip(n["rhs"]).get("k") != "Int"]
    apos = fx.pos(anode)
    doms = [a for a in asg if fx.dominates(fx.pos(a), apos)]
    if not doms:
        ck.incomplete(R, "%s: no assignment of %s dominates the assertion on %s.back()" % (fn.name, nfield, T))
        return
    # 2. the minimum number of layers per thread enforced by the forward sweep
    cs = []
    F = VF(T)
    for f in cls_fns:
        hx = FX(f)
        inits = single_def_inits(f)
        for lp in f.nodes():
            if lp.get("k") not in ("For", "While"):
                continue
            ln = loop_normal(hx, lp)
            if ln is None or ln[3] != 1:
                continue
            for n in walk(lp.get("body")):
                if n.get("k") != "Assign" or n.get("op") != "=":
                    continue
                try:
                    sym = {("l", ln[0]): K, ("inits",): inits}
                    lf, rf = sx(f, n["lhs"], sym), sx(f, n["rhs"], sym)
                except Unknown:
                    continue
                d = sympy.simplify(rf - F(K))
                if lf == F(K + 1) and d.is_Integer and int(d) > 0:
                    cs.append((int(d), f, n))
    if len({c_[0] for c_ in cs}) != 1:
        ck.incomplete(R, "forward sweep `%s(i+1) = %s(i) + c` over the threads not identified (%d candidates): the minimum number of layers per thread is not known" % (T, T, len(cs)))
        return
    cmin = cs[0][0]
    # 3. bounded enumeration of (requested workers, size of the layer offset table)
    inits = single_def_inits(fn)
    conds = path_conditions(fx, apos[0])
    free_f, free_s = set(), set()
    for e in [E, doms[-1]["rhs"]] + [c_ for c_, _ in conds]:
        todo = [e]
        while todo:
            e_ = todo.pop()
            for x in walk(e_):
                if x.get("k") == "Member" and this_field(x) and "vector" not in fn.ntype(x) and is_unsigned(fn.ntype(x)):
                    free_f.add(this_field(x))
                if x.get("k") == "MCall" and x.get("n") == "size" and this_field(x.get("obj")):
                    free_s.add(this_field(x.get("obj")))
                if x.get("k") == "Ref" and x.get("dk") == "local" and x.get("d") in inits:
                    todo.append(inits[x["d"]])
    free_f.discard(nfield)
    free_f, free_s = sorted(free_f), sorted(free_s)
    bad, total, uneval = [], 0, []
    try:
        for vals in itertools.product(range(0, 2 * NMAX + 4), repeat=len(free_f) + len(free_s)):
            env = Env(fields=dict(zip(free_f, vals)), sizes=dict(zip(free_s, vals[len(free_f):])))
            env.inits = inits
            env.fields[nfield] = ev(fn, doms[-1]["rhs"], env)
            feasible = True
            for c_, want in conds:
                try:
                    if bool(ev(fn, c_, env)) != want:
                        feasible = False
                        break
                except Unknown:
                    if relevant_condition(c_, set(free_f) | {nfield}, set()) and render(c_) not in uneval:
                        uneval.append(render(c_))
            if not feasible:
                continue
            env.wrapped = []
            L = ev(fn, E, env)
            if env.wrapped:
                continue        # the layer count itself wraps: an empty offset table, not a state of a compiled assembler
            total += 1
            t = env.fields[nfield]
            if cmin * t > L:
                bad.append("%s, %s: %s = %d workers need %d layers, but there are `%s` = %d" % (
                    ", ".join("%s=%d" % kv for kv in env.fields.items() if kv[0] != nfield), ", ".join("%s.size()=%d" % kv for kv in env.sizes.items()), nfield, t, cmin * t, render(E), L))
    except Unknown as e:
        ck.incomplete(R, "%s: %s" % (fn.name, e))
        return
    if bad and uneval:
        ck.incomplete(R, "%s: the worker count may exceed layers/%d (%s), but the guard(s) %s could not be evaluated" % (fn.name, cmin, bad[0], uneval))
        return
    if total == 0:
        ck.incomplete(R, "%s: no admissible state reaches the assertion in the enumeration" % fn.name)
        return
    ck.ob(R, "%s/%s*workers<=layers" % (fn.name, cmin), not bad,
          "the sweep at line %s of %s gives every thread at least %d layers, so %s.back() >= %d * %s, and XASSERT(%s.back() == %s) at line %s aborts compile() for %s (%d of %d admissible states; smallest first)" % (
              cs[0][2].get("l"), cs[0][1].name, cmin, T, cmin, nfield, T, render(E), anode.get("l"), bad[0], len(bad), total) if bad
          else "%d * %s <= %s in all %d admissible states (requested workers and offset-table sizes < %d): the %d layers per thread the sweep at line %s enforces fit into the layers, XASSERT(%s.back() == %s) cannot fail for this reason" % (
              cmin, nfield, render(E), total, 2 * NMAX + 4, cmin, cs[0][2].get("l"), T, render(E)),
          fn.file, doms[-1].get("l"))


def rule_min_search(ck, facts):
    """strict-minimum search `if(v(j) < m && ...) { idx = j; m = v(j); }` followed by an assertion on
    idx: the initial bound of m must be strictly greater than every value v can take, otherwise an
    element attaining the bound can never be chosen and - if it is the only candidate - idx keeps its
    sentinel and the assertion aborts.  Bounds are decided for v = G.degree(j) of an Adjacency::Graph
    member: G.degree(j) <= G.degree() (the maximum, attained) <= number of image nodes (attained by a
    complete graph, e.g. a single cell, since the neighbour graph contains the cell itself)."""
    R = "E13.min-search-initial-bound"
    cls_fns = [f for f in facts.functions if "::Worker<" not in f.cls and re.search(r"DomainAssembler<", f.cls) and f.body is not None]
    by_name = {}
    for f in cls_fns:
        by_name.setdefault(f.name, f)

    def square(G):
        """G = Graph(injectify*, this->A, this->B) with B = Graph(transpose, this->A): domain == image"""
        cons = {}
        for f in cls_fns:
            for n in f.nodes():
                if n.get("k") == "OpCall" and n.get("op") == "=" and len(n.get("a", [])) == 2 and this_field(n["a"][0]):
                    r = strip(n["a"][1])
                    if r.get("k") in ("Construct", "TempObj"):
                        cons.setdefault(this_field(n["a"][0]), []).append(r)
        gs = cons.get(G, [])
        if len(gs) != 1 or len(gs[0].get("a", [])) != 3 or "injectify" not in render(gs[0]["a"][0]):
            return False
        A, B = this_field(gs[0]["a"][1]), this_field(gs[0]["a"][2])
        bs = cons.get(B, [])
        return A is not None and len(bs) == 1 and len(bs[0].get("a", [])) == 2 and "transpose" in render(bs[0]["a"][0]) and this_field(bs[0]["a"][1]) == A
    for f in cls_fns:
        fx = FX(f)
        inits = single_def_inits(f)

        def res(e, hops=0):
            e = strip(e)
            while e.get("k") == "Ref" and e.get("dk") == "local" and e.get("d") in inits and hops < 4:
                e = strip(inits[e["d"]])
                hops += 1
            return e
        for iff in f.nodes():
            if iff.get("k") != "If" or not fx.enclosing_loops(iff):
                continue
            # then-branch: m = v and idx = <something>
            asg = [n for n in walk(iff.get("then")) if n.get("k") == "Assign" and n.get("op") == "=" and strip(n["lhs"]).get("k") == "Ref" and strip(n["lhs"]).get("dk") == "local"]
            conj = []
            todo = [strip(iff["c"])]
            while todo:
                c = todo.pop()
                if c.get("k") == "Bin" and c.get("op") == "&&":
                    todo += [strip(c["lhs"]), strip(c["rhs"])]
                else:
                    conj.append(c)
            for c in conj:
                if c.get("k") != "Bin" or c.get("op") not in ("<", ">", "<=", ">="):
                    continue
                for v_, m_, op in ((c["lhs"], c["rhs"], c["op"]), (c["rhs"], c["lhs"], {"<": ">", ">": "<", "<=": ">=", ">=": "<="}[c["op"]])):
                    m0 = strip(m_)
                    if op not in ("<", "<=") or m0.get("k") != "Ref" or m0.get("dk") != "local":
                        continue
                    upd = [a for a in asg if strip(a["lhs"]).get("d") == m0["d"] and render(res(a["rhs"])) == render(res(v_))]
                    if not upd:
                        continue
                    V = res(v_)
                    if not (V.get("k") == "MCall" and V.get("n") == "degree" and len(V.get("a", [])) == 1 and this_field(V.get("obj"))):
                        continue            # searched quantity not modelled
                    G = this_field(V["obj"])
                    mvar = next((x for x in f.nodes() if x.get("k") == "Var" and x.get("d") == m0["d"]), None)
                    others = [a for a in f.nodes() if a.get("k") == "Assign" and strip(a["lhs"]).get("d") == m0["d"] and not any(a is u for u in upd)]
                    idxs = [strip(a["lhs"])["d"] for a in asg if strip(a["lhs"]).get("d") != m0["d"]]
                    asserted = [n for n in f.nodes() if n.get("k") == "Call" and n.get("callee") == "FEAT::assertion" and n.get("a") and
                                any(x.get("k") == "Ref" and x.get("d") in idxs for x in walk(n["a"][0]))]
                    if mvar is None or mvar.get("init") is None or not asserted:
                        continue            # no assertion depends on the search result
                    key = "%s/min-search(%s.degree)" % (f.name, G)
                    if others:
                        ck.incomplete(R, "%s: the bound `%s` is assigned outside the search as well" % (key, m0["n"]))
                        continue
                    strict = op == "<"
                    I = res(mvar["init"])
                    plus = 0
                    if I.get("k") == "Bin" and I.get("op") == "+":
                        for x_, c_ in ((I["lhs"], I["rhs"]), (I["rhs"], I["lhs"])):
                            if strip(c_).get("k") == "Int" and int(strip(c_)["v"]) >= 1:
                                I, plus = res(x_), int(strip(c_)["v"])
                                break
                    verdict, why = None, ""
                    onG = I.get("k") == "MCall" and this_field(I.get("obj")) == G and not I.get("a")
                    if (I.get("k") == "Un" and I.get("op") == "~") or "numeric_limits" in (I.get("callee") or ""):
                        verdict, why = True, "the largest value of the type"
                    elif onG and I.get("n") == "degree":
                        verdict, why = (plus >= 1 or not strict), "%s.degree()%s: the maximum degree is attained by some node" % (G, " + %d" % plus if plus else "")
                    elif onG and I.get("n") in ("get_num_nodes_image", "get_num_nodes_domain"):
                        if I["n"] == "get_num_nodes_domain" and not square(G):
                            ck.incomplete(R, "%s: the initial bound uses the number of domain nodes of %s; that the graph is square (image = domain) could not be established" % (key, G))
                            continue
                        verdict, why = (plus >= 1 or not strict), "number of nodes of %s%s: a node adjacent to all nodes (a single cell: the neighbour graph contains the cell itself) has that degree" % (G, " + %d" % plus if plus else "")
                    if verdict is None:
                        ck.incomplete(R, "%s: initial bound `%s` of the minimum search is not a form whose relation to %s.degree(j) is modelled" % (key, render(mvar["init"]), G))
                        continue
                    ck.ob(R, key, verdict,
                          "the search takes a node only if its degree is %s the bound, which starts at `%s` (%s): greater than every degree, so the first unprocessed node is always a candidate and `%s` holds after the search" % (
                              "<" if strict else "<=", render(mvar["init"]), why, render(asserted[0]["a"][0])) if verdict
                          else "the search takes a node only if its degree is strictly smaller than the bound, which starts at `%s` (%s): a node whose degree equals the bound can never be chosen. When only such nodes are unprocessed (one cell, two adjacent cells, a 2x2 block, isolated cells) the result keeps its sentinel and XASSERT(%s) at line %s aborts compile() instead of falling back to fewer workers" % (
                              render(mvar["init"]), why, render(asserted[0]["a"][0]), asserted[0].get("l")),
                          f.file, mvar.get("l"))


# -------------------------------------------------------------------------------------------------
# driver
# -------------------------------------------------------------------------------------------------

RULES = [
    ("E14.fence-guarded", "ThreadFence: every read/write of a state member (_open/_okay) in wait/open/close - including private helpers they call, where the lock may be held in the helper or at its call - is dominated by a live lock on the fence mutex. Broken for: any two threads using one fence concurrently (data race on the flags, missed updates).", 6),
    ("E14.fence-one-mutex", "ThreadFence: wait, open and close lock one and the same mutex (the one the condition wait releases). Broken for: opener and waiter running concurrently.", 1),
    ("E14.fence-wait-loop", "ThreadFence::wait: after condition_variable::wait returns, the closed-predicate is re-tested by a loop condition on every path to the return (wait(lock, pred) with a predicate lambda over the live state is the same loop). Broken for: spurious wake-ups / notify of an earlier phase (a worker passes a closed fence and scatters next to its neighbour).", 1),
    ("E14.fence-wait-returns-open", "ThreadFence::wait: every path to a return has seen the fence open under the lock - it leaves a state test by its `open` edge or passes an untimed predicate wait; a timed wait (wait_for/wait_until) may only be used where its timeout leads back to the test, never to a return. Broken for: any schedule in which a thread waits longer than the timeout (large layers, stalled worker): wait() reports a status nobody set, the caller gives up and its remaining cells are never assembled.", 1),
    ("E14.fence-state-machine", "ThreadFence: constructor and close() make the wait predicate true (blocking), open() makes it false. Broken for: every multi-threaded job (deadlock or no synchronisation at all).", 3),
    ("E14.fence-okay-roundtrip", "ThreadFence: wait() returns the member that open(okay) stores its argument in. Broken for: a job in which one worker fails (the others never learn and wait forever / continue next to a dead neighbour).", 1),
    ("E14.fence-notify", "ThreadFence::open: notify_all on the condition variable wait() sleeps on is passed on every path, and not before the state is set unless the fence mutex is held at the notify. Broken for: a waiter already sleeping when the fence is opened (lost wake-up, deadlock).", 1),
    ("E14.combine-locked", "task->combine() - called by the worker variant itself or by a member helper it calls - is executed with a lock on the shared thread mutex held (RAII lock object in scope and dominating the call, or lock()/unlock() around it; in the helper or around the helper call) in every worker variant that the construction contexts can reach with more than one worker. Broken for: jobs with need_combine (integrals, error norms) on >= 2 threads: lost updates in the reduction.", 13),
    ("E14.shared-mutex", "every Worker construction passes the assembler's own std::mutex member as thread_mutex. Broken for: need_combine jobs on >= 2 threads (each worker locking its own mutex excludes nobody).", 10),
    ("E13.dispatch-asserts", "for every (id, num_workers, strategy) context that assemble()/assemble_master() can construct (bounded enumeration) Worker::operator() dispatches to a variant whose own XASSERTs on id/num_workers hold. Broken for: meshes/settings that resolve to exactly one (or zero) worker threads: the assembly aborts.", 12),
    ("E14.protocol", "for every strategy that can have workers and the worker variant operator() selects for the job's need_scatter flag: the master's code after the thread creation, specialised for the strategy value (switch / if-chain / named selector constant are one decision table; member helpers are inlined with their parameters bound), and the worker variant exchange fence events such that every wait has an open in the other role in the same round, the happens-before graph is acyclic, no open is erased by a close before its waiter passed, no stale open of an earlier phase satisfies a wait, master and worker run the same number of rounds, every iteration of a round loop passes the whole fence sequence of the round on every path that continues with the next round (no `continue` around the handshake), colour rounds are ordered through the master. Broken for: the named strategy/job class with >= 2 workers (deadlock or two colours scattered concurrently).", 15),
    ("E7.layered-wait-before-scatter", "layered variant: in the loop iteration `element == wait position` every path to task->scatter() passes wait() on fence id+1. Broken for: layered strategies, >= 2 threads, scattering jobs: thread id scatters its last layer while thread id+1 scatters the adjacent first layer.", 3),
    ("E7.layered-open-after-scatter", "layered variant: open(true) of fence id is reachable only after scatter() of the iteration `element == open position` and is passed on every continuing path of that iteration. Broken for: layered strategies, >= 2 threads: thread id-1 enters its last layer too early (race) or waits forever.", 3),
    ("E5.layered-positions", "layered variant, per construction context: range = [L(T(id-1)), L(T(id))) (consecutive thread_layers entries), wait position = L(T(id)-1) for id < n and none for id = n, open position = L(T(id-1)+1)-1 for id >= 2; prepare() gets element_indices[position]. Broken for: layered strategies (cells assembled twice/never, handshake at the wrong cell, last thread waiting on a fence nobody opens).", 15),
    ("E14.wait-result-checked", "every ThreadFence::wait() in a reachable worker variant (or in a member helper that returns its result, followed to the caller) leads to `return false` on a false result before any further task/fence operation. Broken for: a job in which another worker fails (exception in a task): this worker would continue/deadlock instead of terminating.", 12),
    ("E14.failure-opens-fence", "Worker::operator(): the status starts false, is set only from the work functions, and every path to the end with a false status opens the worker's own fence with false. Broken for: a failing worker whose neighbour (layered) or master (coloured) waits on its fence: deadlock.", 5),
    ("E5.range-partition", "single / no-scatter / coloured variants: the ranges [beg(id), end(id)) of ids 1..n abut, start at the lower and end at the upper end of the index interval the variant is responsible for ([0,size) resp. the colour interval), for every enumerated worker count and symbolically (sympy, floor division); the round loop visits every colour interval. Broken for: worker counts that do not divide the cell count (cells skipped or assembled twice).", 10),
    ("E14.shared-writes-in-scatter", "for every Task class of basic_assembly_jobs.hpp / function_integral_jobs.hpp (driver tu/c17_reduction.cpp: the four scattering jobs and the five combining tasks): the task's shared handles - members bound in a constructor initialiser to a non-const constructor parameter / job member without a copy, and members constructed from such a handle through a non-const reference (ScatterAxpy) - are written (non-const member/operator call, element assignment, passed to a non-const reference parameter; an element indexed by the number of the cell being assembled belongs to the worker that owns the cell and is exempt) only in code reachable from scatter() or combine() - the contract stated in the doxygen of DomainAssemblyJob::Task; constructor, destructor, prepare(), assemble(), finish() and the members they call on the task (CRTP static_cast included) do not write through them. Broken for: layered strategies with >= 2 workers (finish() runs after the own fence is opened), any strategy for prepare()/assemble(): concurrent updates of vertex-adjacent cells, lost updates. Not seen: a reference-to-scalar handle written by a built-in assignment.", 14),
    ("E5.reduction-operator", "equals the serial result: for every Task::combine() (driver tu/c17_reduction.cpp: the four combining jobs, scalar and blocked) the reduction call reduces the task-local object into the job's object, a task with a non-empty combine() declares need_combine, and the reduction function combines every field of the result class with the same field of the other object by the very operator the per-cell accumulation uses for that field (+= fields by +, max fields by max; static helpers followed with parameters bound); a field that is accumulated but not combined is a violation. Broken for: jobs with need_combine on >= 2 workers (vector-valued functions for the per-component fields): the value depends on the number of workers.", 33),
    ("E5.thread-layers-ends", "_build_thread_layers asserts thread_layers.front() == 0 and .back() == number of layers. Broken for: layered strategy (first/last layers not assembled).", 1),
    ("E7.join-all-exits", "assemble(): every path from the creation of the threads to a normal return passes a loop joining every thread and then clears the thread vector. Broken for: any threaded job (result used while workers still scatter; next job aborts).", 5),
    ("E7.fences-closed-before-start", "assemble(): a loop closing every fence dominates the creation of the worker threads. Broken for: the second job on one assembler (fences left open by the first job release workers early).", 5),
    ("E2.layer-sort-range", "_build_layers (layered_sorted): every std::sort/stable_sort on the element list sorts exactly one layer - from the layer boundary pushed last to the current element count, or [layers(k), layers(k+1)). Broken for: layered_sorted with >= 2 threads (cells migrate between Cuthill-McKee layers, adjacent cells are scattered concurrently).", 2),
    ("E2.cell-index-kind", "DomainAssembler set-up functions: containers indexed by mesh cell numbers (the mesh's index sets, the element mask sized by get_num_elements()) are subscripted with a mesh cell number - an entry of _element_indices, a mesh-part target index, a loop variable bounded by the number of mesh cells - never with a position in the list of selected cells (loop variable bounded by _element_indices.size()). Broken for: assembly on a proper cell subset with >= 2 threads (adjacency graph of the wrong cells, races).", 4),
    ("E14.pool-free-tasks", "who-may-call: no call path (through resolved callees, constructors of created objects and the destructors of their classes, bases and members) leads from the Task constructor/destructor and the task functions the workers call without mutual exclusion (prepare, assemble, scatter, finish - everything but combine) to a MemoryPool function that touches the pool's static map without a lock (allocate/increase/release_memory). Broken for: any job run with >= 2 workers whose task clones/copies/creates a LAFEM container (shallow clone of a job vector): data race on the reference count, use-after-free or abort.", 25),
    ("E8.clear-resets-appended", "every member container that the compile() call graph fills by appending (push_back/emplace_back) without resetting it first is reset (clear(), assignment, resize(0), swap with an empty temporary) on every path through clear(). Broken for: clear(); set_max_worker_threads(other); compile_all_elements() on one assembler - the workers index stale/too long layer or colour tables (cells never assembled, out-of-range reads).", 3),
    ("E8.clear-keeps-size", "members that the constructor sizes by the number of mesh cells and that add_element/add_mesh_part/compile subscript with mesh cell numbers are not left empty by clear(). Broken for: re-use of an assembler for another cell subset (clear(); add_element(); compile()): std::out_of_range abort.", 1),
    ("E13.thread-count-min-layers", "layered strategies: the worker count the thread-layer builder chooses satisfies c * workers <= number of layers for every admissible (requested workers, size of the layer-offset table), where c is the minimum number of layers per thread the builder's forward sweep enforces (T(i+1) = T(i) + c) and the number of layers is the value the builder asserts T.back() to equal (offset table size - 1) - bounded enumeration under the guards dominating the assertion. Broken for: small / odd layer counts with enough requested workers: XASSERT(thread_layers.back() == num_layers) aborts compile().", 1),
    ("E13.min-search-initial-bound", "set-up functions: a strict-minimum search `if(G.degree(j) < m && ...) { idx = j; m = deg; }` whose result an XASSERT depends on starts from a bound strictly greater than every degree (number of nodes + c, maximum degree + c with c >= 1, or the largest value of the type); a bound that a degree can attain (G.degree(), the number of nodes) is a violation, any other form is incomplete. Broken for: element sets in which every unprocessed cell has the maximum degree (single cell, two adjacent cells, 2x2 block, isolated cells): XASSERT(root < num_elems) aborts compile().", 1),
    ("E13.worker-count-wrap", "work-distribution builders: a loop whose start value subtracts from the unsigned worker count cannot wrap for any admissible count the preceding assignment can produce (bounded enumeration, dominating guards respected). Broken for: meshes so small that zero workers result.", 1),
]


def run(tier):
    ck = Check("C17", tier)
    for name, doc, mi in RULES:
        ck.rule(name, doc, mi)
    ck.rule("E0.instantiable", "the anchored headers instantiate without front-end errors for the driver's jobs", 1)
    variants = [("", ())]
    if tier == "thorough":
        variants.append(("[f32,u32,Simplex3]", ("-DC17_FLOAT",)))
    for tag, extra in variants:
        facts = featlib.extract("tu/c17_domain_assembler.cpp", files=FILES, extra=extra)
        CUR["facts"] = facts
        ck.tu(facts)
        errs = facts.errors_in_repo()
        anchored = [e for e in errs if e["file"] in (DA, TH)]
        ck.ob("E0.instantiable", "driver%s" % tag, not anchored,
              "; ".join("%s:%d %s" % (rel(e["file"]), e["line"], e["msg"]) for e in anchored[:3]) if anchored else "DomainAssembler/Worker/ThreadFence instantiate for 5 jobs", DA, 1)
        if facts.diags and not anchored:
            ck.incomplete("E0.instantiable", "driver%s does not compile: %s:%d %s" % (tag, facts.diags[0]["file"], facts.diags[0]["line"], facts.diags[0]["msg"]))
            continue
        if tag == "":
            rule_fence(ck, facts)
            rule_thread_layer_ends(ck, facts)
            rule_clear_resets(ck, facts)
            rule_clear_keeps_size(ck, facts)
        try:
            jobs = build_models(facts, tag)
            enum, can, comp = compile_model(facts)
        except Unknown as e:
            ck.incomplete("E13.dispatch-asserts", "model extraction failed%s: %s" % (tag, e))
            continue
        inv_enum = {v: k for k, v in enum.items()}
        if len(jobs) < 5:
            ck.incomplete("E13.dispatch-asserts", "only %d Worker<Job> instantiations found in the driver%s (5 expected)" % (len(jobs), tag))
        nfields = set()
        for job in jobs:
            wm = job.wm
            if wm.ctor is None or wm.call_op is None or job.assemble is None or job.master is None or len(job.sites) < 2:
                ck.incomplete("E13.dispatch-asserts", "%s: constructor/operator()/assemble/assemble_master construction sites incomplete" % job.name)
                continue
            if wm.flag("need_scatter") is None or wm.flag("need_combine") is None:
                ck.incomplete("E13.dispatch-asserts", "%s: need_scatter/need_combine of the task not exposed by the driver" % job.name)
                continue
            missing = [r for r in ("id", "num_workers", "strategy", "thread_mutex", "thread_fences", "element_indices", "color_elements", "layer_elements", "thread_layers") if r not in wm.field_of]
            if missing:
                ck.incomplete("E13.dispatch-asserts", "%s: constructor parameters %s not bound to members" % (job.name, missing))
                continue
            try:
                vctx, problems = variant_contexts(job, enum, can)
            except Unknown as e:
                ck.incomplete("E13.dispatch-asserts", "%s: %s" % (job.name, e))
                continue
            for p in problems[:3]:
                ck.incomplete("E13.dispatch-asserts", "%s: %s" % (job.name, p))
            if problems:
                continue
            nfields.add(this_field(next(s for s in job.sites if s.where == "assemble").arg.get("num_workers")))
            rule_dispatch(ck, job, vctx, inv_enum)
            rule_combine(ck, job, vctx)
            rule_protocol(ck, job, vctx, enum, can, inv_enum)
            rule_layered(ck, job, vctx, enum, inv_enum)
            rule_wait_results(ck, job, vctx)
            rule_failure_open(ck, job)
            rule_partition(ck, job, vctx, enum)
            rule_join(ck, job)
        if tag == "":
            for nf in sorted(x for x in nfields if x):
                rule_count_wrap(ck, facts, nf)
                rule_min_layers(ck, facts, nf)
            lf = {this_field(s_.arg.get("layer_elements")) for j_ in jobs for s_ in j_.sites if s_.where == "assemble"} - {None}
            ef = {this_field(s_.arg.get("element_indices")) for j_ in jobs for s_ in j_.sites if s_.where == "assemble"} - {None}
            if len(ef) == 1:
                rule_cell_index_kind(ck, facts, ef.pop())
            else:
                ck.incomplete("E2.cell-index-kind", "element index member not identified")
            rule_min_search(ck, facts)
            if len(lf) == 1:
                rule_layer_sort(ck, facts, lf.pop())
            else:
                ck.incomplete("E2.layer-sort-range", "layer offsets member not identified")
    for tag, extra in variants:
        rule_pool_free(ck, extra, tag)
        rule_reduction(ck, extra, tag)
    ck.assume("worker ids / worker counts are enumerated up to %d; the dispatch conditions and assertions compare them with constants <= 2, so larger values behave like %d" % (NMAX, NMAX))
    ck.assume("the master's loops over `_threads.size()` run over the same index set as the creation loop over the worker count (one emplace_back per iteration)")
    ck.assume("mutual exclusion is provided by std::mutex/std::unique_lock/std::condition_variable as specified; lock objects live until the end of their block")
    ck.assume("all workers run the same template code, so one generic worker stands for all in the happens-before matching; the master's for-all loops are checked to address exactly the constructed worker ids")
    ck.note("not decided: that vertex-adjacent cells never lie in one colour / in non-adjacent layers (run-time output of Coloring and _build_layers), that _build_thread_layers yields >= 2 layers per thread (XASSERT elem_fence_open < elem_fence_wait), equality with the serial result, overflow of id*size, the start-fence wait of the layered variant (not necessary: fences are persistent and closed before the threads start)")
    return ck.finish(
        "Static decision of the structural clauses of threaded assembly on the instantiated DomainAssembler/Worker/ThreadFence code: guarded-by and wait/notify discipline of ThreadFence; lock held at combine(); "
        "abstract (id, num_workers, strategy) contexts of the two Worker construction sites pushed through the dispatcher against the targets' own assertions; master/worker fence protocols matched by a happens-before graph per strategy x job class; "
        "CFG path rules of the layered neighbour handshake; sympy normal forms of the element ranges (partition); join/clear/close discipline of assemble(); unsigned wrap of the worker count in the layer builder.",
        trusted_base=["clang 14 front end (AST, template instantiation, CFG)", "featx plugin fact extraction", "sympy (floor/integer simplification), networkx (transitive closure)", "driver tu/c17_domain_assembler.cpp (5 jobs covering need_scatter x need_combine)"])



# -------------------------------------------------------------------------------------------------
# equals the serial result: the reduction in combine() uses, field by field, the operator of the
# per-cell accumulation
# -------------------------------------------------------------------------------------------------

RED_FILES = featlib.repo_path("kernel/assembly/function_integral_jobs.hpp") + "|" + featlib.repo_path("kernel/assembly/basic_assembly_jobs.hpp") + "|/verif/tu/c17_red"
ASSIGN_OPS = ("=", "+=", "-=", "*=", "/=")


def elem_root(n):
    """(root node, rendered element path) of an lvalue: `F`, `F[i]`, `F(i,j)`, `F.at(i)` -> root F"""
    path = []
    n = strip(n)
    hops = 0
    while n is not None and hops < 6:
        hops += 1
        if n.get("k") == "OpCall" and n.get("op") in ("[]", "()") and n.get("a"):
            path.append("[%s]" % ",".join(render(strip(a)) for a in n["a"][1:]))
            n = strip(n["a"][0])
        elif n.get("k") == "Index":
            path.append("[%s]" % render(strip(n["idx"])))
            n = strip(n["b"])
        elif n.get("k") == "MCall" and n.get("n") in ("at", "operator[]") and n.get("obj") is not None:
            path.append("[%s]" % ",".join(render(strip(a)) for a in n.get("a", [])))
            n = strip(n["obj"])
        else:
            break
    return n, "".join(reversed(path))


def same_lvalue(a, b):
    ra, pa = elem_root(a)
    rb, pb = elem_root(b)
    if ra is None or rb is None or pa != pb:
        return False
    if ra.get("k") == "Member" and rb.get("k") == "Member":
        return ra.get("qn") == rb.get("qn") and render(strip(ra.get("b") or {})) == render(strip(rb.get("b") or {}))
    if ra.get("k") == "Ref" and rb.get("k") == "Ref":
        return ra.get("d") == rb.get("d")
    return False


def classify_update(st):
    """(target lvalue node, operator, contribution node) of an assignment-like statement, else None.
    operator: SUM (`t += c`, `t = t + c`), MAX / MIN (`t = max(t, c)`), RESET (`t = literal`),
    SET (any other plain assignment), OTHER (`-=`, `*=`, ...)"""
    if st.get("k") == "Assign":
        lhs, rhs, op = st["lhs"], st["rhs"], st.get("op")
    elif st.get("k") == "OpCall" and st.get("op") in ASSIGN_OPS and len(st.get("a", [])) == 2:
        lhs, rhs, op = st["a"][0], st["a"][1], st["op"]
    else:
        return None
    if op == "+=":
        return lhs, "SUM", rhs
    if op != "=":
        return lhs, "OTHER", rhs
    r = strip(rhs)
    if r.get("k") == "Call" and re.search(r"(^|::)(max|min)$", (r.get("callee") or "").split("<")[0]) and len(r.get("a", [])) == 2:
        kind = "MAX" if (r["callee"].split("<")[0]).endswith("max") else "MIN"
        for mine, other in ((r["a"][0], r["a"][1]), (r["a"][1], r["a"][0])):
            if same_lvalue(mine, lhs):
                return lhs, kind, other
        return lhs, "SET", rhs
    if r.get("k") in ("Bin", "OpCall") and r.get("op") == "+":
        l_, r_ = (r["lhs"], r["rhs"]) if r["k"] == "Bin" else (r["a"][0], r["a"][1]) if len(r.get("a", [])) == 2 else (None, None)
        if l_ is not None:
            for mine, other in ((l_, r_), (r_, l_)):
                if same_lvalue(mine, lhs):
                    return lhs, "SUM", other
    lit = r
    hops = 0
    while lit.get("k") in ("Construct", "TempObj", "Cast") and hops < 4:
        hops += 1
        inner = lit.get("a", [None])[0] if lit.get("k") != "Cast" else lit.get("e")
        if inner is None or (lit.get("k") != "Cast" and len(lit.get("a", [])) != 1):
            break
        lit = strip(inner)
    if lit.get("k") in ("Int", "Float", "Bool"):
        return lhs, "RESET", rhs
    return lhs, "SET", rhs


def guarded_extremum(cond, tgt, src):
    """MAX / MIN if `cond` true means that src is larger / smaller than tgt (`tgt < src`, `src > tgt`,
    `!(tgt >= src)` ...), i.e. `if(cond) tgt = src;` is tgt = max/min(tgt, src); else None"""
    c = strip(cond)
    neg = False
    while c.get("k") == "Un" and c.get("op") == "!":
        c, neg = strip(c["e"]), not neg
    if c.get("k") != "Bin" or c.get("op") not in ("<", ">", "<=", ">="):
        return None
    l, r, op = c["lhs"], c["rhs"], c["op"]
    if neg:
        op = {"<": ">=", ">": "<=", "<=": ">", ">=": "<"}[op]
    if same_lvalue(l, tgt) and render(strip(r)) == render(strip(src)):
        pass
    elif same_lvalue(r, tgt) and render(strip(l)) == render(strip(src)):
        op = {"<": ">", ">": "<", "<=": ">=", ">=": "<="}[op]
    else:
        return None
    return "MAX" if op in ("<", "<=") else "MIN"         # tgt < src -> take src: maximum


def updates_of(facts_by_full, fn, depth=0):
    """assignment-like effects of fn: [(target lvalue node, operator, contribution node, line)];
    calls of helpers defined in the fact base that receive an lvalue by non-const reference are
    replaced by the helper's effects on that parameter, with its other parameters bound"""
    out = []
    # `if(t < c) t = c;` and `t = (t < c) ? c : t` are the maximum / minimum
    idiom = {}
    for n in fn.nodes():
        if n.get("k") == "If" and n.get("else") is None:
            th = n.get("then")
            while th is not None and th.get("k") == "Block" and len(th.get("s", [])) == 1:
                th = th["s"][0]
            u = classify_update(th) if th is not None and th.get("k") in ("Assign", "OpCall") else None
            if u is not None and u[1] == "SET":
                k_ = guarded_extremum(n["c"], u[0], u[2])
                if k_ is not None:
                    idiom[id(th)] = (u[0], k_, u[2])
        elif n.get("k") in ("Assign", "OpCall"):
            u = classify_update(n)
            r_ = strip(u[2]) if u is not None and u[1] == "SET" else None
            if r_ is not None and r_.get("k") == "Cond":
                for keep, take, flip in ((r_["else"], r_["then"], False), (r_["then"], r_["else"], True)):
                    if same_lvalue(keep, u[0]):
                        k_ = guarded_extremum(r_["c"], u[0], take)
                        if k_ is not None:
                            idiom[id(n)] = (u[0], ({"MAX": "MIN", "MIN": "MAX"}[k_] if flip else k_), take)
    for n in fn.nodes():
        u = classify_update(n) if n.get("k") in ("Assign", "OpCall") else None
        if u is not None:
            u = idiom.get(id(n), u)
            out.append((u[0], u[1], u[2], n.get("l")))
            continue
        if n.get("k") in ("Call", "MCall") and not re.search(r"(^|::)(max|min|abs|sqr|sqrt)$", (n.get("callee") or "").split("<")[0]):
            on_this = n.get("k") == "MCall" and strip(n.get("obj") or {}).get("k") == "This"
            pts = [fn.type(t) or "" for t in n.get("pt", [])]
            refs = [i for i, t in enumerate(pts) if t.rstrip().endswith("&") and not t.lstrip().startswith("const") and i < len(n.get("a", []))]
            gets_obj = any(strip(a).get("k") == "This" or (strip(a).get("k") == "Un" and strip(a).get("op") == "*" and strip(strip(a)["e"]).get("k") == "This") or
                           (strip(a).get("k") == "Ref" and strip(a).get("dk") == "param" and fn.cls and fn.cls in (fn.ntype(strip(a)) or "")) for a in n.get("a", []))
            if not (on_this or refs or gets_obj):
                continue
            h = facts_by_full.get(n.get("cfull") or "")
            if h is None or h.body is None or depth >= 2 or len(h.params) != len(n.get("a", [])) or h.d.get("virtual") or h.full == fn.full:
                # the effect of this callee on the objects it receives is not known
                for i in refs:
                    out.append((n["a"][i], "UNKNOWN", None, n.get("l")))
                if on_this or gets_obj:
                    out.append((None, "UNFOLLOWED", n, n.get("l")))
                continue
            # inline the callee's effects with its parameters replaced by the caller's arguments (the
            # callee's `this` is the caller's `this` for member helpers called on this)
            if n.get("k") == "MCall" and not on_this and not h.d.get("static"):
                continue
            bind = {p_["d"]: strip(a_) for p_, a_ in zip(h.params, n.get("a", []))}
            for tgt, op, contrib, l in updates_of(facts_by_full, h, depth + 1):
                if tgt is None:
                    out.append((tgt, op, contrib, n.get("l")))
                    continue
                rt, _pt = elem_root(tgt)
                if rt is not None and rt.get("k") == "Ref" and rt.get("dk") == "local":
                    continue            # local of the helper
                out.append((subst_params(tgt, bind), op, subst_params(contrib, bind) if contrib is not None else None, n.get("l")))
    return out


def subst_params(node, bind):
    """copy of an expression tree with the parameter references of `bind` replaced by argument trees"""
    if isinstance(node, list):
        return [subst_params(x, bind) for x in node]
    if not isinstance(node, dict):
        return node
    if node.get("k") == "Ref" and node.get("dk") == "param" and node.get("d") in bind:
        return bind[node["d"]]
    return {k_: (subst_params(v_, bind) if isinstance(v_, (dict, list)) else v_) for k_, v_ in node.items()}


def top_args(t):
    """top-level template arguments of a type name"""
    if "<" not in t:
        return []
    inner = t[t.index("<") + 1:t.rindex(">")]
    out, depth, cur = [], 0, ""
    for ch in inner:
        if ch == "<":
            depth += 1
        elif ch == ">":
            depth -= 1
        if ch == "," and depth == 0:
            out.append(cur.strip())
            cur = ""
        else:
            cur += ch
    if cur.strip():
        out.append(cur.strip())
    return out


def rule_reduction(ck, extra, tag):
    R = "E5.reduction-operator"
    facts = featlib.extract("tu/c17_reduction.cpp", files=RED_FILES, cfg=False, extra=extra)
    ck.tu(facts)
    errs = [e for e in facts.diags]
    if errs:
        ck.incomplete(R, "driver tu/c17_reduction.cpp%s does not compile: %s:%s %s" % (tag, errs[0]["file"], errs[0]["line"], errs[0]["msg"]))
        return
    rule_shared_writes(ck, facts, tag)
    by_full = {}
    for f in facts.functions:
        by_full.setdefault(f.full, f)
    short = lambda cls: re.sub(r"FEAT::(Assembly|Tiny|LAFEM|Analytic|Space|Trafo|Geometry|Shape)::", "", cls)
    # 1. the reduction calls: combine() of every task class
    reducers = {}          # full name of the reduction function -> [task names]
    tasks = [f for f in facts.functions if f.name == "combine" and f.cls.endswith("::Task")]
    if not tasks:
        ck.incomplete(R, "no Task::combine() in the fact base%s" % tag)
        return
    flags = {}
    for f in facts.functions:
        for n in f.nodes():
            if n.get("k") == "Ref" and n.get("dk") == "smember" and "v" in n and (n.get("qn") or "").endswith("::need_combine"):
                flags[n["qn"].rsplit("::", 1)[0]] = int(n["v"])
    for cb in sorted(tasks, key=lambda f: f.cls):
        job = short(cb.cls).split("<")[0]
        vt = re.search(r"LAFEM::(DenseVector(Blocked)?)<", cb.cls)
        tname = "%s%s::Task" % (job, "<%s>" % vt.group(1) if vt else "")
        ctor = next((f for f in facts.functions if f.cls == cb.cls and f.d.get("ctor") and f.d.get("inits")), None)
        inits = {i["member"]: i.get("init") for i in (ctor.d.get("inits") or []) if i.get("member")} if ctor is not None else {}
        job_level = lambda m: m in inits and inits[m] is not None and any(x.get("k") == "Ref" and x.get("dk") == "param" for x in walk(inits[m]))
        sts = []
        for st in (cb.body or {}).get("s", []):
            # a zero-argument member helper of the task is replaced by its statements
            st_ = strip(st)
            h = by_full.get(st_.get("cfull") or "") if st_.get("k") == "MCall" and strip(st_.get("obj") or {}).get("k") == "This" and not st_.get("a") else None
            if h is not None and h.cls == cb.cls and h.body is not None and not h.d.get("virtual"):
                sts.extend(h.body.get("s", []))
            else:
                sts.append(st)
        if sts:
            # Worker code calls combine() only `if(task->need_combine)`
            if cb.cls not in flags:
                ck.incomplete(R, "%s%s: need_combine not exposed by the driver" % (tname, tag))
            else:
                ck.ob(R, "%s%s/need_combine" % (tname, tag), flags[cb.cls] == 1,
                      "combine() reduces a task-local result and Task::need_combine is %s%s" % (bool(flags[cb.cls]), "" if flags[cb.cls] else ": the workers never call combine(), the per-thread results are dropped"),
                      cb.file, cb.line)
        cfx = FX(cb)
        for st in sts:
            st_ = strip(st)
            if st_.get("k") in ("Decl",) and all(v.get("ref") for v in st_.get("vars", [])):
                continue            # reference aliases of members, resolved below
            recv, arg, g = None, None, None
            if st_.get("k") == "MCall" and len(st_.get("a", [])) == 1:
                # job_object.reduce(task_local)
                recv, arg = this_field(resolve_alias(cfx, st_.get("obj"))), this_field(resolve_alias(cfx, st_["a"][0]))
                g = by_full.get(st_.get("cfull") or "")
            elif st_.get("k") == "OpCall" and st_.get("op") == "+=" and len(st_.get("a", [])) == 2:
                # job_object += task_local (member operator)
                recv, arg = this_field(resolve_alias(cfx, st_["a"][0])), this_field(resolve_alias(cfx, st_["a"][1]))
                g = by_full.get(st_.get("cfull") or "")
            if recv is None or arg is None or g is None or len(g.params) != 1 or g.cls not in (g.type(g.params[0]["t"]) or ""):
                ck.incomplete(R, "%s%s::combine(): statement `%s` (line %s) is not `job_object.reduce(task_local_object)` with a reduction defined in the analysed headers" % (tname, tag, render(st)[:80], st.get("l")))
                continue
            reducers.setdefault(g.full, []).append(tname)
            if ctor is None:
                ck.incomplete(R, "%s%s: constructor with member initialisers not found (roles of %s / %s)" % (tname, tag, recv, arg))
                continue
            ok = job_level(recv) and not job_level(arg)
            ck.ob(R, "%s%s::combine/%s<-%s" % (tname, tag, recv, arg), ok,
                  "combine() reduces the task-local `%s` into the job's `%s` (bound to the job in the task constructor)" % (arg, recv) if ok
                  else "combine() calls %s.%s(%s), but `%s` is %s and `%s` is %s: the per-thread result is not reduced into the job's result object (threaded result != serial result)" % (
                      recv, g.name, arg, recv, "the job's object" if job_level(recv) else "task-local", arg, "the job's object" if job_level(arg) else "task-local"),
                  cb.file, st.get("l"))
    # 2. field by field: accumulation operator vs reduction operator
    for gfull in sorted(reducers):
        g = by_full[gfull]
        cls = g.cls
        targs = top_args(short(cls))
        ctag = "%s[value=%s]" % (short(cls).split("<")[0], targs[1].replace(" ", "") if len(targs) > 1 else ",".join(targs))
        other = g.params[0]["d"]
        field_of = lambda n: (n.get("qn").rsplit("::", 1)[1] if n is not None and n.get("k") == "Member" and (n.get("qn") or "").rsplit("::", 1)[0] == cls else None)
        inits_cls = {}
        for f in facts.functions:
            if f.cls == cls:
                inits_cls.update(single_def_inits(f))
        # reduction side
        red, red_unknown = {}, []
        for tgt, op, contrib, l in updates_of(by_full, g):
            if tgt is None:
                red_unknown.append("line %s: the callee `%s` receives the object(s) and is not followed" % (l, (contrib or {}).get("callee", "?").rsplit("::", 1)[-1]))
                continue
            rt, pt_ = elem_root(tgt)
            F = field_of(rt)
            if F is None or strip(rt.get("b") or {}).get("k") != "This":
                if rt is not None and rt.get("k") == "Ref" and rt.get("dk") == "local":
                    continue
                red_unknown.append("line %s: `%s`" % (l, render(tgt)[:50]))
                continue
            src = None
            if contrib is not None:
                rc, pc = elem_root(contrib)
                cb_ = strip((rc or {}).get("b") or {})
                hops = 0
                while cb_.get("k") == "Ref" and cb_.get("dk") == "local" and cb_.get("d") in inits_cls and hops < 3:
                    cb_ = strip(inits_cls[cb_["d"]])        # `const Info& o = other;`
                    hops += 1
                if field_of(rc) is not None and cb_.get("k") == "Ref" and cb_.get("d") == other and pc == pt_:
                    src = field_of(rc)
                elif field_of(rc) is not None and (cb_.get("k") == "This" or (cb_.get("k") == "Un" and cb_.get("op") == "*" and strip(cb_["e"]).get("k") == "This")):
                    src = "this->" + field_of(rc)       # combined with the object's own field
            red.setdefault(F, []).append((op, src, l))
        opaque = [n for n in g.nodes() if is_call(n) and any(strip(a).get("k") == "This" or (strip(a).get("k") == "Un" and strip(a).get("op") == "*" and strip(strip(a)["e"]).get("k") == "This") for a in n.get("a", []))]
        # accumulation side: every other function that updates a field of an object of this class
        acc = {}
        for f in facts.functions:
            if f.full == g.full or (f.cls == cls and (f.d.get("ctor") or f.d.get("dtor") or f.name.startswith("operator"))):
                continue
            if f.cls == cls and any(re.sub(r"^const |\s*&+$", "", (f.type(p_["t"]) or "").strip()) == cls for p_ in f.params):
                continue            # another merge-like member
            if f.d.get("static") and f.cls == cls:
                continue            # helpers are judged where they are called
            for tgt, op, contrib, l in updates_of(by_full, f):
                if tgt is None:
                    continue
                rt, _p = elem_root(tgt)
                F = field_of(rt)
                if F is not None and op in ("SUM", "MAX", "MIN", "OTHER", "UNKNOWN"):
                    acc.setdefault(F, []).append((op, "%s() line %s" % (f.name, l)))
        if not acc:
            ck.incomplete(R, "%s%s: no accumulation of a field of the class found in the driver's instantiations" % (ctag, tag))
            continue
        for F in sorted(acc):
            key = "%s%s::%s/%s" % (ctag, tag, g.name, F)
            aops = sorted({o for o, _ in acc[F]})
            where = ", ".join(sorted({w_ for _, w_ in acc[F]})[:3])
            if len(aops) != 1 or aops[0] not in ("SUM", "MAX", "MIN"):
                ck.incomplete(R, "%s: the field is accumulated by %s (%s): no single associative operator" % (key, aops, where))
                continue
            aop = aops[0]
            rops = red.get(F, [])
            if not rops:
                if red_unknown or opaque:
                    ck.incomplete(R, "%s: no reduction of the field recognised in %s(), but it contains constructs that are not modelled (%s)" % (key, g.name, (red_unknown or ["`this` handed to a callee"])[0]))
                    continue
                ck.ob(R, key, False, "%s() never combines %s, which the cell loop accumulates with %s (%s): the per-thread partial results of this field are lost - with >= 2 workers the job's value is not the serial one" % (g.name, F, aop, where), g.file, g.line)
                continue
            bad = []
            for op, src, l in rops:
                if op not in ("SUM", "MAX", "MIN") or src is None:
                    bad.append(("unknown", "line %s" % l))      # operator or operand not in a modelled form
                elif src.startswith("this->"):
                    bad.append(("field", "line %s combines %s with %s of the same object instead of the other object's" % (l, F, src)))
                elif src != F:
                    bad.append(("field", "line %s combines %s with other.%s" % (l, F, src)))
                elif op != aop:
                    bad.append(("op", "line %s combines by %s" % (l, op)))
            if any(b_[0] == "unknown" for b_ in bad) and not any(b_[0] in ("op", "field") for b_ in bad):
                ck.incomplete(R, "%s: the reduction statement at %s is not an operator form that is modelled" % (key, bad[0][1]))
                continue
            ok = not bad and len(rops) == 1
            if not bad and len(rops) != 1:
                bad.append(("twice", "the field is combined %d times (lines %s)" % (len(rops), [l for _, _, l in rops])))
            ck.ob(R, key, ok,
                  "%s is accumulated with %s (%s) and %s() combines this.%s with other.%s by %s" % (F, aop, where, g.name, F, F, aop) if ok
                  else "%s is accumulated per cell with %s (%s), but %s(): %s. The combine step of >= 2 workers then yields a value that depends on the number of workers (e.g. the sum of the per-thread maxima) instead of the serial result" % (
                      F, aop, where, g.name, "; ".join(b_[1] for b_ in bad)),
                  g.file, rops[0][2])


# -------------------------------------------------------------------------------------------------
# protocol phases: a task writes the job's shared containers only in scatter() / combine()
# -------------------------------------------------------------------------------------------------

UNPROTECTED = ("ctor", "dtor", "prepare", "assemble", "finish")     # run by every worker without mutual exclusion


def rule_shared_writes(ck, facts, tag):
    """DomainAssemblyJob::Task interface (doxygen in domain_assembler.hpp): the workers serialise only
    scatter() (fence handshake / colours) and combine() (thread mutex).  Shared handles of a task =
    data members bound in a constructor initialiser to a non-const lvalue (constructor parameter of
    non-const reference type, or a member of the job parameter) without a copy being constructed, and
    members constructed from such a handle through a non-const reference parameter (ScatterAxpy)."""
    R = "E14.shared-writes-in-scatter"
    by_full = {}
    by_cls = {}
    for f in facts.functions:
        by_full.setdefault(f.full, f)
        by_cls.setdefault(f.cls, []).append(f)
    short = lambda cls: re.sub(r"FEAT::(Assembly|Tiny|LAFEM|Analytic|Space|Trafo|Geometry|Shape)::", "", cls)
    nonconst_ref = lambda t: (t or "").rstrip().endswith("&") and not (t or "").rstrip().endswith("&&") and not (t or "").lstrip().startswith("const")
    is_self = lambda e: strip(e or {}).get("k") == "This" or (strip(e or {}).get("k") == "Un" and strip(e)["op"] == "*" and strip(strip(e)["e"]).get("k") == "This")
    tasks = sorted({f.cls for f in facts.functions if f.cls.endswith("::Task") and (f.name in TASK_CALLS or f.d.get("ctor"))})
    if not tasks:
        ck.incomplete(R, "no task classes in the fact base%s" % tag)
        return
    for T in tasks:
        vt = re.search(r"LAFEM::(DenseVector(Blocked)?)<", T)
        tname = "%s%s::Task" % (short(T).split("<")[0], "<%s>" % vt.group(1) if vt else "")
        # class and its bases (through the base initialisers of the constructors)
        S, todo = [], [T]
        while todo:
            c = todo.pop(0)
            if c in S:
                continue
            S.append(c)
            for f in by_cls.get(c, []):
                if f.d.get("ctor"):
                    for i in f.d.get("inits") or []:
                        ini = strip(i.get("init") or {})
                        if i.get("base") and ini.get("k") in ("Construct", "TempObj") and ini.get("ccls"):
                            todo.append(ini["ccls"])
        ctors = [f for c in S for f in by_cls.get(c, []) if f.d.get("ctor") and f.d.get("inits")]
        if not ctors:
            ck.incomplete(R, "%s%s: constructor with initialisers not in the fact base" % (tname, tag))
            continue
        # shared handles
        handles = {}
        for rnd in range(2):
            for f in ctors:
                ptype = {p_["d"]: f.type(p_["t"]) for p_ in f.params}
                for i in f.d.get("inits") or []:
                    m, ini = i.get("member"), strip(i.get("init") or {})
                    if not m or m in handles or not ini:
                        continue
                    amp = False
                    if ini.get("k") == "Un" and ini.get("op") == "&":
                        ini, amp = strip(ini["e"]), True
                    root, _path = elem_root(ini)
                    if ini.get("k") in ("Ref", "Member") and "const " not in (f.ntype(ini) or "")[:6]:
                        if ini.get("k") == "Ref" and ini.get("dk") == "param" and (nonconst_ref(ptype.get(ini.get("d"))) or amp):
                            handles[m] = "bound to the constructor parameter `%s`" % ini["n"]
                        elif ini.get("k") == "Member" and strip(ini.get("b") or {}).get("k") == "Ref" and strip(ini["b"]).get("dk") == "param" \
                                and nonconst_ref(ptype.get(strip(ini["b"]).get("d"))):
                            handles[m] = "bound to `%s`" % render(ini)
                        elif ini.get("k") == "Member" and this_field(ini) in handles:
                            handles[m] = "alias of the shared `%s`" % this_field(ini)
                    elif ini.get("k") in ("Construct", "TempObj") and rnd == 1:
                        for a_, t_ in zip(ini.get("a", []), ini.get("pt", [])):
                            a_ = strip(a_)
                            src = this_field(a_) if this_field(a_) in handles else (a_.get("n") if a_.get("k") == "Ref" and a_.get("dk") == "param" and nonconst_ref(ptype.get(a_.get("d"))) else None)
                            if src is not None and nonconst_ref(f.type(t_)):
                                handles[m] = "constructed from the shared `%s` through a non-const reference" % src
        if not handles:
            continue
        # phase entry points
        entries = {}
        for ph in TASK_CALLS:
            for c in S:
                fs = [f for f in by_cls.get(c, []) if f.name == ph]
                if fs:
                    entries[ph] = fs
                    break
        entries["ctor"] = [f for f in ctors]
        entries["dtor"] = [f for c in S for f in by_cls.get(c, []) if f.d.get("dtor")]
        missing = [ph for ph in ("prepare", "assemble", "scatter", "finish") if ph not in entries]
        if missing:
            ck.incomplete(R, "%s%s: interface member(s) %s not instantiated by the driver" % (tname, tag, missing))
            continue
        writes = {h: [] for h in handles}       # handle -> [(phase, function, line, what)]
        owned = {}
        unfollowed = []

        def cell_owned(f, idx):
            """the element index is the number of the cell being assembled (every cell belongs to exactly
            one worker - E5.range-partition / E5.layered-positions -, so such entries are not shared)"""
            e = strip(idx)
            inits = single_def_inits(f)
            hops = 0
            while e.get("k") == "Ref" and e.get("dk") == "local" and e.get("d") in inits and hops < 3:
                e = strip(inits[e["d"]])
                hops += 1
            if e.get("k") == "MCall" and e.get("n") == "get_current_cell_index":
                return True
            return e.get("k") == "Ref" and e.get("dk") == "param" and f.name == "prepare"
        for ph, starts in entries.items():
            seen = set()
            stack = [(f, 0) for f in starts]
            while stack:
                f, depth = stack.pop()
                if f.full in seen:
                    continue
                seen.add(f.full)
                fx = FX(f)
                for n in f.nodes():
                    if not is_call(n):
                        # built-in assignment to an element reached through a handle (pointer / array)
                        if n.get("k") == "Assign":
                            root, path = elem_root(n["lhs"])
                            if path and root is not None and this_field(root) in handles:
                                writes[this_field(root)].append((ph, f.name, n.get("l"), "assignment to `%s`" % render(n["lhs"])[:50]))
                        continue
                    if n.get("k") in ("Construct", "TempObj"):
                        continue
                    recv = n.get("obj") if n.get("k") == "MCall" else (n["a"][0] if n.get("k") == "OpCall" and n.get("a") else None)
                    args = n.get("a", []) if n.get("k") != "OpCall" else n.get("a", [])[1:]
                    if recv is not None:
                        r0 = recv
                        while strip(r0).get("k") == "Cast" or (strip(r0).get("k") == "Cast"):
                            r0 = strip(r0)["e"]
                        rr = resolve_alias(fx, recv)
                        root, _p = elem_root(rr)
                        h = this_field(root) if root is not None else None
                        par = fx.parent.get(id(n))
                        while par is not None and par.get("k") == "Cast":
                            par = fx.parent.get(id(par))
                        vt_ = re.sub(r"\s*const\s*$", "", (f.type(par.get("t")) or "").strip()) if par is not None and par.get("k") == "Var" else ""
                        # pointer / reference to const (west or east const): `const T *`, `T const *`, `const T &`
                        ro_bound = bool(vt_) and vt_[-1] in "*&" and re.search(r"\bconst\b", vt_[:-1].rsplit("*", 1)[-1]) is not None
                        if h in handles and not n.get("cconst") and ro_bound:
                            pass        # `const DT* p = vector.elements();`: a non-const accessor used for reading only
                        elif h in handles and not n.get("cconst"):
                            if n.get("k") == "OpCall" and n.get("op") in ("()", "[]") and args and cell_owned(f, args[0]):
                                owned.setdefault(h, []).append((ph, n.get("l")))        # entry of the cell this worker owns
                            else:
                                writes[h].append((ph, f.name, n.get("l"), "non-const call `%s`" % render(n)[:60]))
                        # calls on the task itself (also through static_cast<Derived&>(*this)): follow
                        base_self = strip(recv)
                        while base_self.get("k") == "Cast":
                            base_self = strip(base_self["e"])
                        if is_self(base_self) or is_self(recv):
                            g = by_full.get(n.get("cfull") or "")
                            if g is not None and g.cls in S and depth < 4:
                                stack.append((g, depth + 1))
                            elif g is None and not n.get("cconst"):
                                unfollowed.append((ph, n.get("callee", "?").rsplit("::", 1)[-1], n.get("l")))
                    if n.get("k") in ("Call", "MCall"):
                        for a_, t_ in zip(args, n.get("pt", [])):
                            root, _p = elem_root(resolve_alias(fx, a_))
                            h = this_field(root) if root is not None else None
                            if h in handles and nonconst_ref(f.type(t_)):
                                writes[h].append((ph, f.name, n.get("l"), "passed to the non-const reference parameter of `%s`" % (n.get("callee") or "?").rsplit("::", 1)[-1]))
                            if is_self(a_) and nonconst_ref(f.type(t_)):
                                unfollowed.append((ph, (n.get("callee") or "?").rsplit("::", 1)[-1], n.get("l")))
        for h in sorted(handles):
            key = "%s%s/%s" % (tname, tag, h)
            bad = [w for w in writes[h] if w[0] in UNPROTECTED]
            okw = [w for w in writes[h] if w[0] not in UNPROTECTED]
            unf = [u for u in unfollowed if u[0] in UNPROTECTED]
            if not bad and unf:
                ck.incomplete(R, "%s: %s() hands the task to `%s` (line %s), which is not followed" % (key, unf[0][0], unf[0][1], unf[0][2]))
                continue
            ck.ob(R, key, not bad,
                  "the shared `%s` (%s) is written in %s, which the workers run without mutual exclusion (only scatter() is serialised by the fence handshake / colours and combine() by the thread mutex): %s. With >= 2 workers two threads update entries of vertex-adjacent cells concurrently (lost updates; the result differs from the serial one)" % (
                      h, handles[h], ", ".join(sorted({"%s()" % ("Task" if w[0] == "ctor" else "~Task" if w[0] == "dtor" else w[0]) for w in bad})),
                      "; ".join("%s line %s: %s" % (w[1], w[2], w[3]) for w in bad[:3])) if bad
                  else "the shared `%s` (%s) is written only in %s (%d statement(s))%s; constructor, destructor, prepare(), assemble() and finish() do not write shared entries through it" % (
                      h, handles[h], ", ".join(sorted({w[0] + "()" for w in okw})) or "no phase", len(okw),
                      " and at the entry of the worker's own cell (%s)" % ", ".join(sorted({o[0] + "()" for o in owned[h]})) if h in owned else ""),
                  (by_cls.get(T) or ctors)[0].file, (bad or okw or [(0, 0, (by_cls.get(T) or ctors)[0].line)])[0][2])

# -------------------------------------------------------------------------------------------------
# layered_sorted: sorting must stay inside one layer
# -------------------------------------------------------------------------------------------------

def rule_layer_sort(ck, facts, layer_field):
    """sort calls of _build_layers on the element list: the sorted interval must be one layer"""
    R = "E2.layer-sort-range"
    fns = [f for f in facts.functions if f.name == "_build_layers" and f.cfg is not None]
    if not fns:
        ck.incomplete(R, "_build_layers not found")
        return
    fn = fns[0]
    fx = FX(fn)
    inits = single_def_inits(fn)

    def moved_local(field):
        for n in fn.nodes():
            if n.get("k") == "OpCall" and n.get("op") == "=" and n.get("a") and this_field(n["a"][0]) == field and len(n["a"]) == 2:
                r = strip(n["a"][1])
                if r.get("k") == "Call" and r.get("callee", "").startswith("std::move") and r.get("a"):
                    r = strip(r["a"][0])
                if r.get("k") == "Ref" and r.get("dk") == "local":
                    return r["d"]
        return None
    bvec = moved_local(layer_field)
    if bvec is None:
        ck.incomplete(R, "_build_layers: local vector that becomes %s not identified" % layer_field)
        return

    def iter_off(a):
        """(vector decl id, offset node) of `v.begin() + off`"""
        a = strip(a)
        hops = 0
        while hops < 6:
            hops += 1
            if a.get("k") in ("Construct", "TempObj") and len(a.get("a", [])) == 1 and "iterator" in (a.get("ccls") or ""):
                a = strip(a["a"][0])
            elif a.get("k") == "Ref" and a.get("dk") == "local" and a.get("d") in inits:
                a = strip(inits[a["d"]])
            else:
                break
        if a.get("k") == "OpCall" and a.get("op") == "+" and len(a.get("a", [])) == 2:
            b, off = strip(a["a"][0]), a["a"][1]
            if b.get("k") == "MCall" and b.get("n") == "begin" and strip(b.get("obj") or {}).get("k") == "Ref":
                return strip(b["obj"])["d"], off
        if a.get("k") == "MCall" and a.get("n") == "begin" and strip(a.get("obj") or {}).get("k") == "Ref":
            return strip(a["obj"])["d"], None
        raise Unknown("sort iterator `%s`" % render(a))
    pushes = [n for n in fn.nodes() if n.get("k") == "MCall" and n.get("n") in ("push_back", "emplace_back") and strip(n.get("obj") or {}).get("d") == bvec
              and fx.cfg.block_of(n["i"]) is not None]
    sorts = [n for n in fn.nodes() if n.get("k") == "Call" and re.match(r"^std::(stable_)?sort$", n.get("callee", "")) and len(n.get("a", [])) >= 2]
    B = VF("B")
    for k_, srt in enumerate(sorts):
        key = "_build_layers/%s#%d" % (srt["callee"].rsplit("::", 1)[-1], k_)
        try:
            (v0, x), (v1, y) = iter_off(srt["a"][0]), iter_off(srt["a"][1])
            if v0 != v1 or x is None or y is None:
                raise Unknown("sort range is not `v.begin()+a, v.begin()+b` on one vector")

            def bform(node):
                """boundary-vector normal form B(k) of an offset, following single-definition locals"""
                node = strip(node)
                hops = 0
                while node.get("k") == "Ref" and node.get("dk") == "local" and node.get("d") in inits and hops < 4:
                    node = strip(inits[node["d"]])
                    hops += 1
                if node.get("k") in ("MCall", "OpCall"):
                    obj = node.get("obj") if node["k"] == "MCall" else (node.get("a") or [None])[0]
                    args = node.get("a", []) if node["k"] == "MCall" else node.get("a", [])[1:]
                    nm = node.get("n") if node["k"] == "MCall" else ("at" if node.get("op") == "[]" else None)
                    if strip(obj or {}).get("d") == bvec and nm in ("at", "operator[]") and len(args) == 1:
                        sym = {("l", d_): sympy.Symbol("v%d" % d_, integer=True) for d_ in {z["d"] for z in walk(args[0]) if z.get("k") == "Ref" and z.get("dk") == "local"}}
                        return B(sx(fn, args[0], sym))
                return None
            fa, fb = bform(x), bform(y)
            if fa is not None and fb is not None:
                ok = fb.func == B and fa.func == B and sympy.simplify(fb.args[0] - fa.args[0] - 1) == 0
                ck.ob(R, key, ok,
                      "sorted interval is [layers(k), layers(k+1)): one layer" if ok
                      else "the sorted interval runs from layer boundary %s to %s, i.e. across %s layers: cells move between Cuthill-McKee layers, so vertex-adjacent cells can end up in non-adjacent layers of different threads" % (fa.args[0], fb.args[0], sympy.simplify(fb.args[0] - fa.args[0])),
                      fn.file, srt.get("l"))
                continue
            # incremental form: begin offset must be the most recently pushed boundary, end offset the current element count
            xs, ys = strip(x), strip(y)
            if xs.get("k") != "Ref" or ys.get("k") != "Ref" or xs.get("d") not in inits or ys.get("d") not in inits:
                raise Unknown("sort offsets `%s`, `%s` are not single-definition locals" % (render(x), render(y)))
            spos = fx.pos(srt)
            # the last boundary push before the sort
            last = [p for p in pushes if fx.dominates(fx.pos(p), spos) and
                    fx.reach((fx.pos(p)[0], fx.pos(p)[1] + 1), target_stmts=[srt["i"]], avoid_stmts=[q["i"] for q in pushes]) is not None]
            if len(last) != 1:
                raise Unknown("the layer boundary pushed last before the sort is not unique (%d candidates)" % len(last))
            parg = strip(last[0]["a"][0])
            xi = strip(inits[xs["d"]])
            size_of_v = lambda e: strip(e).get("k") == "MCall" and strip(e).get("n") == "size" and strip(strip(e).get("obj") or {}).get("d") == v0
            xvar = next(v for v in fn.nodes() if v.get("k") == "Var" and v.get("d") == xs["d"])
            yvar = next(v for v in fn.nodes() if v.get("k") == "Var" and v.get("d") == ys["d"])
            if parg.get("k") == "Ref" and parg.get("d") == xs["d"]:
                x_ok, why = True, ""
            elif xi.get("k") == "MCall" and xi.get("n") == "back" and strip(xi.get("obj") or {}).get("d") == bvec:
                # x = layers.back(): the most recent boundary only if read after the last push
                x_ok = fx.dominates(fx.pos(last[0]), fx.pos(xvar))
                why = "`%s` is read from %s.back() before the boundary `%s` of the layer being built is pushed, i.e. it is the start of the previous layer" % (xs["n"], "layers", render(parg))
            else:
                raise Unknown("begin offset `%s = %s` is neither the boundary pushed last nor read from the boundary vector" % (xs["n"], render(xi)))
            if x_ok and not size_of_v(inits[ys["d"]]):
                raise Unknown("end offset `%s` is not the current element count" % ys["n"])
            ck.ob(R, key, x_ok,
                  "sorted interval starts at the boundary pushed last (`%s`) and ends at the current element count: exactly the layer just built" % render(parg) if x_ok
                  else "the sorted interval starts at %s: the sort reorders the previous layer together with the new one, cells move between Cuthill-McKee layers and vertex-adjacent cells can end up in layers processed concurrently by different threads (layered_sorted)" % why,
                  fn.file, srt.get("l"))
        except (Unknown, StopIteration) as e:
            ck.incomplete(R, "%s: %s" % (key, e))


# -------------------------------------------------------------------------------------------------
# index kinds: mesh-cell indexed containers are subscripted with mesh-cell numbers
# -------------------------------------------------------------------------------------------------

def rule_cell_index_kind(ck, facts, elem_field):
    """Two index spaces meet in DomainAssembler: *positions* 0..nel-1 in the list of selected cells
    (this->_element_indices, node numbers of the adjacency graphs) and *mesh cell numbers* (entries of
    _element_indices, subscripts of the mesh's index sets and of the element mask)."""
    R = "E2.cell-index-kind"
    fns = [f for f in facts.functions if re.search(r"DomainAssembler<", f.cls) and "::Worker<" not in f.cls and "::DegreeCompare" not in f.cls and "::ThreadStats" not in f.cls
           and f.cfg is not None and f.body is not None]
    ctor = next((f for f in facts.functions if f.d.get("ctor") and re.search(r"DomainAssembler<[^:]*(::[^W][^:]*)*>$", f.cls) and f.cls.count("::Worker<") == 0 and f.d.get("inits")), None)
    # member containers sized by the number of mesh cells
    mesh_sized = set()
    for f in facts.functions:
        if f.d.get("ctor") and re.search(r"DomainAssembler<", f.cls) and "::Worker<" not in f.cls:
            for i in f.d.get("inits", []) or []:
                if i.get("member") and any(x.get("k") == "MCall" and x.get("n") == "get_num_elements" for x in walk(i.get("init") or {})):
                    mesh_sized.add(i["member"])
    MESH, POS, OTHER = "mesh-cell", "position", "other"

    def bound_kind(fn, b, inits, depth=0):
        b = strip(b)
        if b.get("k") == "Ref" and b.get("dk") == "local" and b.get("d") in inits and depth < 4:
            return bound_kind(fn, inits[b["d"]], inits, depth + 1)
        if b.get("k") == "MCall" and b.get("n") == "get_num_elements":
            return MESH
        if b.get("k") == "MCall" and b.get("n") == "size" and this_field(b.get("obj")) in mesh_sized:
            return MESH
        if b.get("k") == "MCall" and b.get("n") == "size" and this_field(b.get("obj")) == elem_field:
            return POS
        if b.get("k") == "MCall" and b.get("n") in ("get_num_nodes_domain",):
            return POS
        return None

    def kind(fx, e, inits, depth=0):
        """(kind, explanation) of an index expression, or (None, why) if not inferable"""
        fn = fx.fn
        e = strip(e)
        if depth > 5:
            return None, "too deep"
        if e.get("k") in ("MCall", "OpCall"):
            obj = e.get("obj") if e["k"] == "MCall" else (e.get("a") or [None])[0]
            nm = e.get("n") if e["k"] == "MCall" else ("at" if e.get("op") == "[]" else None)
            if nm in ("at", "operator[]") and this_field(obj) == elem_field:
                return MESH, "entry of %s" % elem_field
            if nm in ("at", "operator[]") and "TargetSet" in (e.get("ccls") or ""):
                return MESH, "target index of a mesh part"
            if e["k"] == "MCall" and (e.get("obj") or {}).get("k") == "This":
                # accessor helper `Index _cell(Index pos) const { return _element_indices.at(pos); }`
                h = find_method(fn.cls, e)
                body = (h.body or {}).get("s", []) if h is not None and not h.d.get("virtual") else []
                if len(body) == 1 and body[0].get("k") == "Return" and body[0].get("e") is not None and len(h.params) == len(e.get("a", [])):
                    k_, why = kind(FX(h), body[0]["e"], single_def_inits(h), depth + 1)
                    if k_ == "contract":
                        r_ = strip(body[0]["e"])
                        idx = next((i for i, p_ in enumerate(h.params) if p_["d"] == r_.get("d")), None)
                        if idx is not None:
                            return kind(fx, e["a"][idx], inits, depth + 1)
                        return None, "value of `%s`" % render(e)
                    if k_ is not None:
                        return k_, "%s (through the accessor %s)" % (why, h.name)
            return None, "value of `%s`" % render(e)
        if e.get("k") == "Ref" and e.get("dk") == "param":
            return "contract", "parameter `%s`" % e["n"]
        if e.get("k") == "Ref" and e.get("dk") == "local":
            if e["d"] in inits:
                return kind(fx, inits[e["d"]], inits, depth + 1)
            # loop variable: kind of its upper bound
            ks = set()
            for lp in fx.fn.nodes():
                if lp.get("k") in ("For", "While") and lp.get("c") is not None:
                    for c in walk(lp["c"]):
                        if c.get("k") == "Bin" and c.get("op") in ("<", "<=", "!=") and strip(c["lhs"]).get("k") == "Ref" and strip(c["lhs"]).get("d") == e["d"]:
                            ks.add(bound_kind(fn, c["rhs"], inits))
            if len(ks) == 1 and None not in ks:
                k_ = ks.pop()
                return k_, "loop variable `%s` bounded by the number of %s" % (e["n"], "mesh cells" if k_ == MESH else "selected cells (%s.size())" % elem_field)
            return None, "loop variable `%s` with bound(s) of unknown kind" % e["n"]
        return None, "expression `%s`" % render(e)

    seen = 0
    for fn in fns:
        fx = FX(fn)
        inits = single_def_inits(fn)
        cnt = {}
        for n in fn.nodes():
            sub = None
            what = None
            if n.get("k") == "OpCall" and n.get("op") == "[]" and (n.get("ccls") or "").startswith("FEAT::Geometry::IndexSet<") and len(n.get("a", [])) == 2:
                sub, what = n["a"][1], "mesh index set `%s`" % render(strip(n["a"][0]))
            elif n.get("k") in ("MCall", "OpCall") and this_field(n.get("obj") if n["k"] == "MCall" else (n.get("a") or [None])[0]) in mesh_sized:
                if n["k"] == "MCall" and n.get("n") == "at" and len(n.get("a", [])) == 1:
                    sub, what = n["a"][0], "mesh-sized member `%s`" % this_field(n.get("obj"))
                elif n["k"] == "OpCall" and n.get("op") == "[]" and len(n.get("a", [])) == 2:
                    sub, what = n["a"][1], "mesh-sized member `%s`" % this_field(n["a"][0])
            if sub is None:
                continue
            cnt[what] = cnt.get(what, 0) + 1
            key = "%s/%s#%d" % (fn.name, what.split("`")[1], cnt[what])
            k_, why = kind(fx, sub, inits)
            if k_ is None:
                ck.incomplete(R, "%s: kind of subscript `%s` not inferable (%s)" % (key, render(sub), why))
                continue
            seen += 1
            ok = k_ in (MESH, "contract")
            ck.ob(R, key, ok,
                  "%s is subscripted with a mesh cell number (%s)" % (what, why) if ok
                  else "%s is indexed by mesh cell numbers but is subscripted with `%s`, a %s (%s): for a proper cell subset (add_element/add_mesh_part + compile) the data of the wrong cells is read - the neighbour graph, hence layers and colours, no longer describe the selected cells and vertex-adjacent cells are scattered concurrently" % (what, render(sub), k_, why),
                  fn.file, n.get("l"), trivial=(k_ == "contract"))


# -------------------------------------------------------------------------------------------------
# who-may-call: code run concurrently by the workers must not use the unsynchronised MemoryPool map
# -------------------------------------------------------------------------------------------------

class CallGraph:
    def __init__(self, facts):
        self.facts = facts
        self.byfull, self.byqn, self.bycls_dtor, self.ctors = {}, {}, {}, {}
        for f in facts.functions:
            self.byfull.setdefault(f.full, f)
            self.byqn.setdefault(f.qn, []).append(f)
            if f.d.get("dtor"):
                self.bycls_dtor.setdefault(f.cls, f)
            if f.d.get("ctor"):
                self.ctors.setdefault(f.cls, []).append(f)
        self._dt = {}

    def resolve(self, call):
        f = self.byfull.get(call.get("cfull") or "")
        if f is not None:
            return [f]
        return list(self.byqn.get(call.get("callee") or "", []))

    @staticmethod
    def _cls(t):
        t = re.sub(r"^(const|volatile)\s+", "", (t or "").strip())
        t = re.sub(r"\s*(&|&&|\*)$", "", t)
        return t

    def dtors(self, cls, depth=0):
        """destructor bodies run when an object of class cls dies: its own, its bases', its members'"""
        cls = self._cls(cls)
        if cls in self._dt or depth > 5:
            return self._dt.get(cls, [])
        self._dt[cls] = out = []
        if cls in self.bycls_dtor:
            out.append(self.bycls_dtor[cls])
        seen_b = set()
        for c in self.ctors.get(cls, []):
            for i in c.d.get("inits", []) or []:
                if i.get("base") and i["base"] not in seen_b:
                    seen_b.add(i["base"])
                    out.extend(self.dtors(i["base"], depth + 1))
                elif i.get("member") and isinstance(i.get("init"), dict):
                    # a member object (not a reference): initialised by a constructor call or by a
                    # function returning an object by value
                    ini = strip(i["init"])
                    t = None
                    if ini.get("k") in ("Construct", "TempObj"):
                        t = self._cls(ini.get("ccls") or c.type(ini.get("t")))
                    elif ini.get("k") in ("MCall", "Call", "OpCall"):
                        rets = {g.type(g.d.get("ret")) for g in self.resolve(ini)}
                        if rets and not any(r_.rstrip().endswith("&") or r_.rstrip().endswith("*") for r_ in rets):
                            t = self._cls(c.type(ini.get("t")))
                    if t is not None and ("m", i["member"]) not in seen_b and (t in self.ctors or t in self.bycls_dtor):
                        seen_b.add(("m", i["member"]))
                        out.extend(self.dtors(t, depth + 1))
        return out

    def succ(self, fn):
        out = []
        for n in fn.nodes():
            if is_call(n):
                for g in self.resolve(n):
                    out.append((g, n))
                if n.get("k") in ("Construct", "TempObj") and n.get("ccls"):
                    for g in self.dtors(n["ccls"]):
                        out.append((g, n))
            elif n.get("k") == "Var" and n.get("t") is not None and n.get("init") is None:
                for g in self.dtors(fn.type(n["t"])):
                    out.append((g, n))
        return out

    def path_to(self, starts, is_sink, limit=20000):
        """breadth-first search; returns [(function, call node into the next)] ending at a sink, or None"""
        from collections import deque
        par = {}
        q = deque()
        for s_ in starts:
            if s_.full not in par:
                par[s_.full] = None
                q.append(s_)
        n_ = 0
        while q and n_ < limit:
            f = q.popleft()
            n_ += 1
            if is_sink(f):
                path = []
                k = f.full
                while par[k] is not None:
                    pf, call = par[k]
                    path.append((pf, call))
                    k = pf.full
                return f, path[::-1], n_
            for g, call in self.succ(f):
                if g.full not in par:
                    par[g.full] = (f, call)
                    q.append(g)
        return None, [], n_


def rule_pool_free(ck, extra, tag):
    R = "E14.pool-free-tasks"
    facts = featlib.extract("tu/c17_domain_assembler.cpp", files=featlib.repo_path("kernel/"), cfg=False, extra=extra)
    ck.tu(facts)
    cg = CallGraph(facts)
    pool = [f for f in facts.functions if f.cls == "FEAT::MemoryPool"]
    sinks = {}
    for f in pool:
        touches = any(x.get("k") == "Ref" and x.get("dk") == "smember" and (x.get("qn") or "").startswith("FEAT::MemoryPool::") for x in f.nodes())
        locked = any(x.get("k") in ("Construct", "TempObj") and LOCK_CLS.match(x.get("ccls", "") or "") for x in f.nodes()) or \
            any(x.get("k") == "MCall" and x.get("ccls") == "std::mutex" and x.get("n") == "lock" for x in f.nodes())
        if touches and not locked:
            sinks[f.full] = f
    if not sinks:
        ck.incomplete(R, "no unsynchronised accessor of the MemoryPool's static map found (MemoryPool changed or now locked)%s" % tag)
        return
    workers = sorted({f.cls for f in facts.functions if re.search(r"DomainAssembler<.*>::Worker<", f.cls) and f.name == "operator()"})
    if len(workers) < 5:
        ck.incomplete(R, "only %d Worker<Job> instantiations in the call-graph facts%s" % (len(workers), tag))
    for wcls in workers:
        job = short_job(wcls)
        wfns = [f for f in facts.functions if f.cls == wcls]
        entries = {}
        for wf in wfns:
            for n in wf.nodes():
                if task_call(n) and n.get("n") != "combine":
                    for g in cg.resolve(n):
                        entries.setdefault("Task::%s" % n["n"], []).append(g)
                    if not cg.resolve(n):
                        ck.incomplete(R, "Worker<%s>%s: body of task->%s() not in the fact base" % (job, tag, n["n"]))
                if n.get("k") in ("Construct", "TempObj") and (n.get("ccls") or "").endswith("::Task") and wf.name == "operator()":
                    for g in cg.resolve(n):
                        entries.setdefault("Task::Task", []).append(g)
                    for g in cg.dtors(n["ccls"]):
                        entries.setdefault("Task::~Task", []).append(g)
        if "Task::Task" not in entries:
            ck.incomplete(R, "Worker<%s>%s: task construction not found in operator()" % (job, tag))
            continue
        for ename, starts in sorted(entries.items()):
            sink, path, visited = cg.path_to(starts, lambda f: f.full in sinks)
            key = "Worker<%s>%s/%s" % (job, tag, ename)
            if sink is None:
                ck.ob(R, key, True, "no call path from %s (run concurrently by the worker threads) to the unsynchronised MemoryPool map accessors %s; %d functions visited" % (
                    ename, sorted({s_.name for s_ in sinks.values()}), visited), starts[0].file, starts[0].line)
            else:
                chain = " -> ".join("%s (line %s)" % (pf.qn.split("<")[0].rsplit("::", 2)[-2] + "::" + pf.name if "::" in pf.qn else pf.name, call.get("l")) for pf, call in path)
                ck.ob(R, key, False,
                      "%s runs on every worker thread without mutual exclusion and reaches MemoryPool::%s, which updates the process-wide pool map without a lock: %s -> MemoryPool::%s. Two workers constructing/destroying their tasks at the same time race on the reference counter of a shared array (lost update -> premature free or `Memory address not found` abort)" % (
                          ename, sink.name, chain, sink.name), path[0][0].file if path else starts[0].file, path[0][1].get("l") if path else starts[0].line)


# -------------------------------------------------------------------------------------------------
# reset covers state: clear() resets every member the compile() call graph fills by appending
# -------------------------------------------------------------------------------------------------

APPENDS = ("push_back", "emplace_back", "insert", "emplace", "append")


def member_resets(fx, field):
    """statements of fx.fn that leave this->field empty / freshly assigned, as CFG statement ids"""
    out = []
    fn = fx.fn
    for n in fn.nodes():
        i = n.get("i")
        if i is None or fx.cfg.block_of(i) is None:
            continue
        if n.get("k") == "MCall" and n.get("obj") is not None and this_field(resolve_alias(fx, n.get("obj"))) == field:
            if n.get("n") == "clear" and not n.get("a"):
                out.append(i)
            elif n.get("n") == "resize" and n.get("a") and strip(n["a"][0]).get("k") == "Int" and int(strip(n["a"][0])["v"]) == 0:
                out.append(i)
            elif n.get("n") in ("assign",):
                out.append(i)
            elif n.get("n") == "swap" and n.get("a") and strip(n["a"][0]).get("k") in ("Construct", "TempObj") and not strip(n["a"][0]).get("a"):
                out.append(i)
        elif n.get("k") == "MCall" and n.get("n") == "swap" and strip(n.get("obj") or {}).get("k") in ("Construct", "TempObj") and not strip(n["obj"]).get("a") \
                and n.get("a") and this_field(n["a"][0]) == field:
            out.append(i)
        elif n.get("k") == "OpCall" and n.get("op") == "=" and n.get("a") and this_field(n["a"][0]) == field:
            out.append(i)
        elif n.get("k") == "Assign" and n.get("op") == "=" and this_field(n["lhs"]) == field:
            out.append(i)
    return out


def rule_clear_resets(ck, facts):
    R = "E8.clear-resets-appended"
    cls_fns = {f.name: f for f in facts.functions if re.search(r"DomainAssembler<", f.cls) and "::Worker<" not in f.cls and "::DegreeCompare" not in f.cls
               and "::ThreadStats" not in f.cls and f.cfg is not None and f.body is not None and not f.d.get("ctor")}
    roots = [n for n in ("compile", "compile_all_elements") if n in cls_fns]
    clr = cls_fns.get("clear")
    if not roots or clr is None:
        ck.incomplete(R, "compile()/compile_all_elements()/clear() of DomainAssembler not in the fact base")
        return
    # call graph of the compile path (member helpers called on this)
    calls = {}           # callee name -> [(caller name, call node)]
    order, todo = [], list(roots)
    while todo:
        f = todo.pop()
        if f in order:
            continue
        order.append(f)
        for n in cls_fns[f].nodes():
            if n.get("k") == "MCall" and (n.get("obj") or {}).get("k") == "This" and n.get("n") in cls_fns:
                calls.setdefault(n["n"], []).append((f, n))
                todo.append(n["n"])
    fxs = {f: FX(cls_fns[f]) for f in order}

    def reset_before(fname, pos, field, depth=0):
        """on every path of the compile run reaching position pos in fname, field was reset before"""
        fx = fxs[fname]
        rs = member_resets(fx, field)
        if any(fx.dominates(fx.pos(fx.fn.by_id(r)), pos) for r in rs):
            return True
        if fname in roots or depth > 4:
            return False
        sites = calls.get(fname, [])
        return bool(sites) and all(reset_before(g, fxs[g].pos(c), field, depth + 1) for g, c in sites)
    need = {}
    for f in order:
        fx = fxs[f]
        for n in fx.fn.nodes():
            # the receiver may be a reference alias of the member (`std::vector<Index>& tl = this->_thread_layers;`)
            fld = this_field(resolve_alias(fx, n.get("obj"))) if n.get("k") == "MCall" and n.get("obj") is not None else None
            if fld is None or n.get("n") not in APPENDS or "vector" not in fx.fn.ntype(strip(n["obj"])):
                continue
            if not reset_before(f, fx.pos(n), fld):
                need.setdefault(fld, []).append("%s() line %s" % (f, n.get("l")))
    fxc = FX(clr)
    opq = [n for n in opaque_calls(fxc) if n.get("i") is not None and fxc.cfg.block_of(n["i"]) is not None]
    for fld, sites in sorted(need.items()):
        rs = member_resets(fxc, fld)
        helper_resets = []
        for n in opq:
            h = find_method(clr.cls, n)
            if h is not None and h.cfg is not None and not h.d.get("virtual"):
                hx = FX(h)
                hr = member_resets(hx, fld)
                if hr and hx.reach((hx.cfg.entry, 0), target_blocks=[hx.cfg.exit], avoid_stmts=hr, avoid_blocks=hx.cfg.noreturn_blocks()) is None:
                    helper_resets.append(n["i"])
        esc = fxc.reach((fxc.cfg.entry, 0), target_blocks=[fxc.cfg.exit], avoid_stmts=rs + helper_resets, avoid_blocks=fxc.cfg.noreturn_blocks())
        key = "clear/%s" % fld
        if esc is not None:
            other = [n["i"] for n in opq if n["i"] not in helper_resets] + \
                [n["i"] for n in clr.nodes() if is_call(n) and n.get("i") is not None and fxc.cfg.block_of(n["i"]) is not None
                 and (any(this_field(a) == fld for a in n.get("a", [])) or (n.get("k") == "MCall" and this_field(n.get("obj")) == fld and n.get("n") not in VEC_READS))]
            if fxc.reach((fxc.cfg.entry, 0), target_blocks=[fxc.cfg.exit], avoid_stmts=rs + helper_resets + other, avoid_blocks=fxc.cfg.noreturn_blocks()) is None:
                ck.incomplete(R, "%s: clear() may reset the member through a construct that is not modelled" % key)
                continue
        ck.ob(R, key, esc is None,
              "clear() resets %s on every path; the compile path appends to it in %s relying on it being empty" % (fld, ", ".join(sites[:3])) if esc is None
              else "a path through clear() leaves %s untouched, but the compile path appends to it (%s) without resetting it first: after clear(); set_max_worker_threads()/set_threading_strategy(); compile...() the table starts with the entries of the previous compilation - workers read stale layer/colour/element boundaries (cells never assembled or assembled twice, out-of-range indices)" % (fld, ", ".join(sites[:3])),
              clr.file, clr.line)


def rule_clear_keeps_size(ck, facts):
    """members the constructor sizes by the number of mesh cells and that the set-up functions
    subscript with mesh cell numbers keep that size across clear()"""
    R = "E8.clear-keeps-size"
    sized = {}
    for f in facts.functions:
        if f.d.get("ctor") and re.search(r"DomainAssembler<", f.cls) and "::Worker<" not in f.cls:
            for i in f.d.get("inits", []) or []:
                if i.get("member") and any(x.get("k") == "MCall" and x.get("n") == "get_num_elements" for x in walk(i.get("init") or {})):
                    sized[i["member"]] = render(i["init"])
    if not sized:
        ck.incomplete(R, "DomainAssembler constructor with mesh-sized members not in the fact base")
        return
    fns = {f.name: f for f in facts.functions if re.search(r"DomainAssembler<", f.cls) and "::Worker<" not in f.cls and f.cfg is not None and f.body is not None and not f.d.get("ctor")}
    clr = fns.get("clear")
    if clr is None:
        ck.incomplete(R, "DomainAssembler::clear not in the fact base")
        return
    fx = FX(clr)

    def touches(f, m, depth=0):
        for n in f.nodes():
            if n.get("k") == "Member" and this_field(n) == m:
                return True
            if n.get("k") == "MCall" and (n.get("obj") or {}).get("k") == "This":
                h = find_method(f.cls, n)
                if h is None or depth >= 3 or h.d.get("virtual") or touches(h, m, depth + 1):
                    return True
            elif is_call(n) and any(strip(a_).get("k") == "This" for a_ in n.get("a", [])):
                return True
        return False

    def size_effects(fx_, m, depth=0):
        """CFG statements of fx_ that may leave member m empty (shrink), that size it again (regrow),
        and whose effect on its size is not modelled (unknown); member helpers are summarised"""
        fn_ = fx_.fn
        shrink, regrow, unknown = [], [], []
        for n in fn_.nodes():
            i = n.get("i")
            if i is None or fx_.cfg.block_of(i) is None:
                continue
            if n.get("k") == "MCall" and this_field(n.get("obj")) == m:
                a0 = strip(n["a"][0]) if n.get("a") else {}
                if (n.get("n") == "clear" and not n.get("a")) or (n.get("n") == "resize" and a0.get("k") == "Int" and int(a0.get("v")) == 0):
                    shrink.append(n)
                elif n.get("n") == "swap" and a0.get("k") in ("Construct", "TempObj") and not a0.get("a"):
                    shrink.append(n)
                elif n.get("n") in ("resize", "assign"):
                    regrow.append(n)
                elif n.get("n") not in VEC_READS and n.get("n") not in ("insert", "emplace", "cbegin", "cend", "rbegin", "rend", "max_size", "shrink_to_fit"):
                    unknown.append(n)
            elif n.get("k") == "MCall" and n.get("n") == "swap" and strip(n.get("obj") or {}).get("k") in ("Construct", "TempObj") and not strip(n["obj"]).get("a") \
                    and n.get("a") and this_field(n["a"][0]) == m:
                shrink.append(n)
            elif n.get("k") == "OpCall" and n.get("op") == "=" and n.get("a") and this_field(n["a"][0]) == m:
                r_ = strip(n["a"][1]) if len(n["a"]) > 1 else {}
                if r_.get("k") in ("Construct", "TempObj") and not r_.get("a"):
                    shrink.append(n)            # m = std::vector<T>()
                elif r_.get("k") in ("Construct", "TempObj"):
                    a0 = strip(r_["a"][0])
                    (shrink if a0.get("k") == "Int" and int(a0.get("v")) == 0 else regrow).append(n)
                else:
                    unknown.append(n)
            elif n.get("k") == "MCall" and (n.get("obj") or {}).get("k") == "This":
                h = find_method(fn_.cls, n)
                if h is None or h.cfg is None or h.d.get("virtual") or depth >= 2:
                    unknown.append(n)
                    continue
                if not touches(h, m):
                    continue
                hx = FX(h)
                hs, hr, hu = size_effects(hx, m, depth + 1)
                nr_ = hx.cfg.noreturn_blocks()
                if hu:
                    unknown.append(n)
                elif any(hx.reach((hx.pos(x)[0], hx.pos(x)[1] + 1), target_blocks=[hx.cfg.exit], avoid_stmts=[y["i"] for y in hr], avoid_blocks=nr_) is not None for x in hs):
                    shrink.append(n)
                elif hr and hx.reach((hx.cfg.entry, 0), target_blocks=[hx.cfg.exit], avoid_stmts=[y["i"] for y in hr], avoid_blocks=nr_) is None:
                    regrow.append(n)
            elif is_call(n) and n.get("k") not in ("MCall",) and any(this_field(a_) == m or strip(a_).get("k") == "This" for a_ in n.get("a", [])):
                unknown.append(n)
        return shrink, regrow, unknown
    for m, how in sorted(sized.items()):
        users = sorted({f.name for f in fns.values() if f.name != "clear" for n in f.nodes()
                        if (n.get("k") == "MCall" and n.get("n") == "at" and this_field(n.get("obj")) == m) or
                        (n.get("k") == "OpCall" and n.get("op") == "[]" and n.get("a") and this_field(n["a"][0]) == m)})
        if not users:
            continue
        shrink, regrow, unknown = size_effects(fx, m)
        key = "clear/%s" % m
        nr_ = fx.cfg.noreturn_blocks()
        rg = [x["i"] for x in regrow]
        bad = [s_ for s_ in shrink if fx.reach((fx.pos(s_)[0], fx.pos(s_)[1] + 1), target_blocks=[fx.cfg.exit], avoid_stmts=rg, avoid_blocks=nr_) is not None]
        definite = [s_ for s_ in bad if fx.reach((fx.pos(s_)[0], fx.pos(s_)[1] + 1), target_blocks=[fx.cfg.exit], avoid_stmts=rg + [x["i"] for x in unknown], avoid_blocks=nr_) is not None]
        if (bad and not definite) or (not bad and unknown and
                                      fx.reach((fx.cfg.entry, 0), target_blocks=[fx.cfg.exit], avoid_stmts=rg, avoid_blocks=nr_) is not None):
            u0 = unknown[0]
            ck.incomplete(R, "%s: clear() changes the member through a construct whose effect on its size is not modelled (`%s`, line %s)" % (key, render(u0)[:80], u0.get("l")))
            continue
        ck.ob(R, key, not bad,
              "clear() empties %s (line %s) and does not size it again, but the constructor sizes it as %s and %s subscript it with mesh cell numbers: after clear(), add_element()/add_mesh_part() throw std::out_of_range and compile() selects no cell" % (m, bad[0].get("l"), how, ", ".join(u + "()" for u in users)) if bad
              else "clear() keeps the mesh-cell size of %s that %s rely on" % (m, ", ".join(u + "()" for u in users)),
              clr.file, bad[0].get("l") if bad else clr.line)
